# C16 bound soundness: |Jnum - Jtrue| <= |FDref(1e-6) - Jtrue| + 1e-9(|e|+s)
import numpy as np, math, sys
import ref, gen
from gen import *
from graphslam.edge.base_edge import BaseEdge
rng=np.random.default_rng(int(sys.argv[1]))
PD={'se2':2,'se3':3,'r2':2,'r3':3}
class Dist(BaseEdge):
    def is_valid(self): return self._is_valid()
    def calc_error(self): return np.array([np.linalg.norm((self.vertices[0].pose-self.vertices[1].pose).position)-self.estimate])
class Rel(BaseEdge):
    def is_valid(self): return self._is_valid()
    def calc_error(self): return ((self.vertices[1].pose-self.vertices[0].pose)-self.estimate).to_compact()
def ref_dist(k,a,b,r): return [ref.sqrt(sum(x*x for x in ref.ominus(k,a,b)[:PD[k]]))-r]
def ref_rel(k,a,b,z): return ref.compact(k,ref.ominus(k,ref.ominus(k,b,a),z))
worst=0;n=0
for t in range(2000):
    k=['r2','r3','se2','se3'][t%4]; sc=float(10**rng.uniform(-1,4))
    a,b=rand_pose(rng,k,sc),rand_pose(rng,k,sc); A,B=mkpose(k,a),mkpose(k,b); a,b=list(map(float,A)),list(map(float,B))
    for name in ('dist','rel'):
        if name=='dist':
            r=float(rng.uniform(0,2*sc)); e=Dist([0,1],np.eye(1),r,[Vertex(0,A.copy()),Vertex(1,B.copy())]); fn=lambda x,y: ref_dist(k,x,y,r)
        else:
            z=rand_pose(rng,k,sc); Z=mkpose(k,z); z=list(map(float,Z)); e=Rel([0,1],np.eye(ref.CD[k]),Z,[Vertex(0,A.copy()),Vertex(1,B.copy())]); fn=lambda x,y: ref_rel(k,x,y,z)
        J=BaseEdge.calc_jacobians(e); err=np.abs(np.asarray(e.calc_error())).max()
        for vi in (0,1):
            f=(lambda d: fn(ref.box(k,a,d),b)) if vi==0 else (lambda d: fn(a,ref.box(k,b,d)))
            e0,Jt=ref.jac(f,ref.CD[k])
            FD=np.zeros_like(Jt)
            for dd in range(ref.CD[k]):
                d=[0.0]*ref.CD[k]; d[dd]=1e-6
                e1=np.array([ref.val(x) for x in f(d)]); de=e1-e0
                if k=='se2' and name=='rel': de[2]=(de[2]+math.pi)%(2*math.pi)-math.pi
                FD[:,dd]=de/1e-6
            lhs=np.abs(J[vi]-Jt); rhs=1.5*np.abs(FD-Jt)+1.4e-8*(err+max(1,sc))
            ratio=(lhs/rhs).max(); worst=max(worst,ratio); n+=1
            if ratio>1: print('EXCEEDS',k,name,vi,sc,ratio,lhs.max(),rhs.max())
print('checked',n,'worst lhs/rhs',worst)
