import numpy as np, warnings, traceback
from graphslam.graph import Graph
from graphslam.vertex import Vertex
from graphslam.edge.edge_odometry import EdgeOdometry
from graphslam.edge.edge_landmark import EdgeLandmark
from graphslam.pose.r2 import PoseR2
from graphslam.pose.r3 import PoseR3
from graphslam.pose.se2 import PoseSE2
from graphslam.pose.se3 import PoseSE3

def t(name, f):
    try:
        print(name, '->', f())
    except Exception as e:
        print(name, 'RAISES', type(e).__name__, e)

# C17 probes
v1=Vertex(1,PoseSE2([0,0],0)); v2=Vertex(2,PoseR2([1,1])); v3=Vertex(3,PoseSE2([1,0],0.1))
el=EdgeLandmark([1,2],np.eye(2),PoseR2([1,1]),PoseSE2.identity(),0,[v1,v2])
eo=EdgeOdometry([1,3],np.eye(3),PoseSE2([1,0],0.1),[v1,v3])
t('landmark.equals(odometry)', lambda: el.equals(eo))
t('odometry.equals(landmark)', lambda: eo.equals(el))
t('R2.equals(R3)', lambda: PoseR2([1,2]).equals(PoseR3([1,2,3])))
t('SE2.equals(R3) same numbers', lambda: PoseSE2([1,2],0.5).equals(PoseR3([1,2,0.5])))
t('SE2.equals(SE3)', lambda: PoseSE2([1,2],0.5).equals(PoseSE3([1,2,0.5],[0,0,0,1])))
eo_se2=EdgeOdometry([1,3],np.eye(3),PoseSE2([1,2],0.5))
eo_r3=EdgeOdometry([1,3],np.eye(3),PoseR3([1,2,0.5]))
t('odo SE2 equals odo R3 same numbers', lambda: eo_se2.equals(eo_r3))
t('vertex SE2 vs R3', lambda: Vertex(1,PoseSE2([1,2],0.5)).equals(Vertex(1,PoseR3([1,2,.5]))))
t('identity vs identity+1e-9 (tol 1e-6)', lambda: PoseR2([0,0]).equals(PoseR2([1e-9,0])))
t('SE2 pi-1e-13 vs +1e-12 ', lambda: PoseSE2([1,1],np.pi-1e-13).equals(PoseSE2([1,1],np.pi-1e-13+1e-12)))
t('SE3 q vs -q', lambda: PoseSE3([1,1,1],[0,0,0,1]).equals(PoseSE3([1,1,1],[0,0,0,-1])))
