import numpy as np, math, sys
import ref, gen
from gen import *
seed=int(sys.argv[1]); k=sys.argv[2]; init_t=float(sys.argv[3]); init_r=float(sys.argv[4]); meas_t=float(sys.argv[5]); meas_r=float(sys.argv[6]); N=int(sys.argv[7])
rng=np.random.default_rng(seed)
rows=[]
for t in range(N):
    tol=float(10**rng.uniform(-10,-3))
    n=int(rng.integers(3,41))
    spec=make_graph(rng,k,n,int(rng.integers(0,max(1,n//2))),int(rng.integers(0,4)),meas_t,meas_r,init_t,init_r,cond=float(10**rng.uniform(0,3)))
    g=build(spec)
    chi0=g.calc_chi2()
    r=quiet_opt(g,tol=tol,max_iter=50)
    chi,H,b,idx,free=ref_system(g)
    Hf=H[np.ix_(free,free)]; bf=b[free]
    lam2=float(bf@np.linalg.solve(Hf,bf)) if np.all(np.isfinite(Hf)) else float('nan')
    prev=r.iteration_results[-2].chi2 if len(r.iteration_results)>=2 and r.iteration_results[-2].chi2 is not None else chi0
    # chi2 of state before last update
    chis=[r.initial_chi2]+[it.chi2 for it in r.iteration_results if it.chi2 is not None]
    rec=max(np.abs(e.calc_error()).max() for e in g._edges)
    rows.append((tol,chi0,r.final_chi2,lam2,r.converged,r.num_iterations,np.linalg.cond(Hf) if np.all(np.isfinite(Hf)) else np.nan,rec,chis[-2] if len(chis)>=2 else chi0))
R=np.array(rows,float)
fin=np.isfinite(R[:,2])
print(k,init_t,init_r,meas_t,meas_r,'N',N,'nonfinite',int((~fin).sum()),'chi_inc',int((R[fin,2]>R[fin,1]*(1+1e-9)).sum()),'notconv',int((R[fin,4]==0).sum()),'maxit',R[:,5].max())
R=R[fin]
ratio=R[:,3]/(R[:,0]*R[:,8]+1e-300)
big=R[:,2]>1e-8
print('  nondegenerate:',big.sum(),' lam2/(tol*chi_prev) max',ratio[big].max() if big.any() else None,'p99',np.percentile(ratio[big],99) if big.any() else None)
print('  degenerate (chi_final<=1e-8):',(~big).sum(),' lam2 abs max',R[~big,3].max() if (~big).any() else None, ' max rec', R[~big,7].max() if (~big).any() else None)
# alt: lam2 <= tol*chi_prev + floor where floor=1e-20*cond?
print('  max lam2/cond/eps^2', (R[:,3]/(R[:,6]*2.2e-16**2*np.maximum(R[:,1],1))).max())
