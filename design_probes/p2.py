import numpy as np, warnings, traceback, io, contextlib
from graphslam.graph import Graph
from graphslam.vertex import Vertex
from graphslam.edge.edge_odometry import EdgeOdometry
from graphslam.edge.edge_landmark import EdgeLandmark
from graphslam.edge.base_edge import BaseEdge
from graphslam.pose.r2 import PoseR2
from graphslam.pose.r3 import PoseR3
from graphslam.pose.se2 import PoseSE2
from graphslam.pose.se3 import PoseSE3
from graphslam.util import neg_pi_to_pi

print("== C06: isolated fixed vertex")
vs=[Vertex(0,PoseR2([0,0]),fixed=True),Vertex(1,PoseR2([1,0.2])),Vertex(2,PoseR2([5,5]),fixed=True)]
es=[EdgeOdometry([0,1],np.eye(2),PoseR2([1,0]))]
g=Graph(es,vs)
with warnings.catch_warnings(record=True) as w:
    warnings.simplefilter('always')
    r=g.optimize(fix_first_pose=False,verbose=False)
    print([str(x.message)[:60] for x in w])
print([v.pose for v in vs], r.converged, r.final_chi2)

print("== C06: singular (free comp without fixed) plus fixed vertex")
vs=[Vertex(0,PoseSE2([0,0],0.3),fixed=True),Vertex(1,PoseSE2([1,0.2],0.1)),Vertex(2,PoseSE2([5,5],0)),Vertex(3,PoseSE2([6,5],0))]
es=[EdgeOdometry([0,1],np.eye(3),PoseSE2([1,0],0)),EdgeOdometry([2,3],np.eye(3),PoseSE2([1,0],0))]
g=Graph(es,vs)
with warnings.catch_warnings(record=True) as w:
    warnings.simplefilter('always')
    r=g.optimize(fix_first_pose=False,verbose=False)
    print([str(x.message)[:60] for x in w])
print([v.pose for v in vs], r.converged, r.final_chi2, r.num_iterations)

print("== C06: fixed SE2 drift on success path")
rng=np.random.default_rng(0)
mx=0
for trial in range(200):
    th=rng.uniform(-np.pi,np.pi)
    vs=[Vertex(0,PoseSE2(rng.normal(size=2),th),fixed=True),Vertex(1,PoseSE2([1,0.2],0.1)),Vertex(2,PoseSE2([2,0.2],0.1))]
    p0=vs[0].pose.to_array()
    es=[EdgeOdometry([0,1],np.eye(3),PoseSE2([1,0],0.05)),EdgeOdometry([1,2],np.eye(3),PoseSE2([1,0],0.05))]
    g=Graph(es,vs); g.optimize(fix_first_pose=False,verbose=False,tol=0,max_iter=10)
    d=np.abs(vs[0].pose.to_array()-p0); mx=max(mx,d.max())
print('max drift of fixed SE2 vertex over 10 iters', mx)

print("== neg_pi_to_pi idempotence")
xs=rng.uniform(-np.pi,np.pi,100000)
f1=neg_pi_to_pi(xs); f2=neg_pi_to_pi(f1); f3=neg_pi_to_pi(f2)
print('f1!=x', np.mean(f1!=xs), 'f2!=f1', np.mean(f2!=f1), 'f3!=f2', np.mean(f3!=f2), 'max|f1-x|', np.abs(f1-xs).max())
neg = xs< -np.pi/2
print('for x<-pi/2: f2!=f1', np.mean((f2!=f1)[neg]), ' x>=-pi/2:', np.mean((f2!=f1)[~neg]))
print('range', f1.min(), f1.max(), neg_pi_to_pi(np.pi), neg_pi_to_pi(-np.pi), neg_pi_to_pi(-np.pi-1e-17), neg_pi_to_pi(np.nextafter(-np.pi,-10)))
