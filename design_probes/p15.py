import numpy as np, math, sys, tempfile, os, copy
import ref, gen
from gen import *
from graphslam.g2o_parameters import G2OParameterSE2Offset, G2OParameterSE3Offset
seed=int(sys.argv[1]); rng=np.random.default_rng(seed)
d=tempfile.mkdtemp(); f=os.path.join(d,'a.g2o')
def build_g2o(spec):
    k,kp=spec['k'],spec['kp']
    vs=[Vertex(int(rng.integers(-1000,1000))*1000+i,mkpose(k,p)) for i,p in enumerate(spec['init'])]
    n=len(vs); vs+=[Vertex(10**6+m,mkpose(kp,p)) for m,p in enumerate(spec['linit'])]
    es=[];params={}
    for e in spec['edges']:
        if e[0]=='odo': es.append(EdgeOdometry([vs[e[1]].id,vs[e[2]].id],e[4].copy(),mkpose(k,e[3])))
        else:
            off=mkpose(k,e[5]) if k=='se3' else PoseSE2.identity()
            oid=len(params) if k=='se3' else 0
            if k=='se3': params[("PARAMS_SE3OFFSET",oid)]=G2OParameterSE3Offset(("PARAMS_SE3OFFSET",oid),off)
            es.append(EdgeLandmark([vs[e[1]].id,vs[e[2]].id],e[4].copy(),mkpose(kp,e[3]),off,offset_id=oid))
    g=Graph(es,vs); g._g2o_params=params; return g
mx={}
for t in range(100):
    k=['se2','se3'][t%2]
    spec=make_graph(rng,k,int(rng.integers(2,8)),int(rng.integers(0,3)),int(rng.integers(0,3)),0.03,0.01,0.15,0.08,cond=1e3,scale=float(10**rng.uniform(-3,3)))
    if k=='se3':
        for p in spec['init']:
            if rng.random()<0.5: p[3:]=[-x for x in p[3:]]
        spec['edges']=[tuple([e[0],e[1],e[2],(e[3][:3]+[-x for x in e[3][3:]]) if (e[0]=='odo' and rng.random()<0.5) else e[3]]+list(e[4:])) for e in spec['edges']]
    g=build_g2o(spec); c0=g.calc_chi2()
    g.to_g2o(f); g2=Graph.from_g2o(f); c1=g2.calc_chi2()
    # compare bitwise
    for v,v2 in zip(g._vertices,g2._vertices):
        assert v.id==v2.id and type(v.pose) is type(v2.pose)
        dv=np.abs(np.array(v.pose)-np.array(v2.pose)).max(); mx['vertex']=max(mx.get('vertex',0),dv)
    for e,e2 in zip(g._edges,g2._edges):
        assert type(e) is type(e2) and e.vertex_ids==e2.vertex_ids
        mx['info']=max(mx.get('info',0),np.abs(e.information-e2.information).max())
        de=np.abs(np.array(e.estimate)-np.array(e2.estimate)).max()
        if isinstance(e.estimate,PoseSE3):
            de=min(de,np.abs(np.array(e.estimate[3:])+np.array(e2.estimate[3:])).max()+np.abs(np.array(e.estimate[:3])-np.array(e2.estimate[:3])).max())
        mx['estimate']=max(mx.get('estimate',0),de)
        if hasattr(e,'offset'): mx['offset']=max(mx.get('offset',0),np.abs(np.array(e.offset)-np.array(e2.offset)).max())
    mx['chi_'+k]=max(mx.get('chi_'+k,0),abs(c1-c0)/max(abs(c0),1e-300))
print(mx)
