# C15 history probe + C09 relation probe
import numpy as np, math, sys, tempfile, os, io, contextlib
import ref, gen
from gen import *
from graphslam.edge.base_edge import BaseEdge
from graphslam.g2o_parameters import G2OParameterSE3Offset
rng=np.random.default_rng(int(sys.argv[1]))
def snap(g):
    parts=[]
    for v in g._vertices: parts+= [v.pose.tobytes(), bytes([v.fixed]), str(v.id).encode()]
    for e in g._edges:
        parts+=[np.asarray(e.estimate).tobytes(), np.asarray(e.information).tobytes(), str(e.vertex_ids).encode()]
        if hasattr(e,'offset'): parts.append(np.asarray(e.offset).tobytes())
    return b'|'.join(parts)
d=tempfile.mkdtemp(); f=os.path.join(d,'x.g2o'); bad=0; ncalls=0
for t in range(60):
    k=['se2','se3'][t%2]
    spec=make_graph(rng,k,int(rng.integers(3,8)),2,2,0.03,0.01,0.15,0.08)
    g=build(spec); g2=build(spec)
    if k=='se3':
        g._g2o_params={}
        for i,e in enumerate(g._edges):
            if isinstance(e,EdgeLandmark): e.offset_id=i; g._g2o_params[("PARAMS_SE3OFFSET",i)]=G2OParameterSE3Offset(("PARAMS_SE3OFFSET",i),e.offset)
    else:
        for e in g._edges:
            if isinstance(e,EdgeLandmark): e.offset=PoseSE2.identity()
    for step in range(50):
        s0=snap(g); op=int(rng.integers(0,9)); e=g._edges[int(rng.integers(0,len(g._edges)))]
        if op==0: r=[e.calc_error(),e.calc_error()]
        elif op==1: r=[e.calc_chi2(),e.calc_chi2()]
        elif op==2: r=[np.concatenate([j.ravel() for j in e.calc_jacobians()]) for _ in range(2)]
        elif op==3: r=[np.concatenate([j.ravel() for j in BaseEdge.calc_jacobians(e)]) for _ in range(2)]
        elif op==4: r=[g.calc_chi2(),g.calc_chi2()]
        elif op==5: r=[g.equals(g2),g.equals(g2)]
        elif op==6: g.to_g2o(f); a=open(f).read(); g.to_g2o(f); r=[np.frombuffer(a.encode(),dtype=np.uint8),np.frombuffer(open(f).read().encode(),dtype=np.uint8)]
        elif op==7:
            x=e.calc_chi2_gradient_hessian(); y=e.calc_chi2_gradient_hessian()
            r=[np.concatenate([np.ravel(c) for _,c in x[1]]+[np.ravel(c) for _,c in x[2]]),np.concatenate([np.ravel(c) for _,c in y[1]]+[np.ravel(c) for _,c in y[2]])]
        else:
            fx={id(v):v.pose.tobytes() for v in g._vertices if v.fixed}
            quiet_opt(g,max_iter=int(rng.integers(1,3)),tol=0,fix_first_pose=False); r=None
            # only poses may change
            s1=snap(g)
            for v in g._vertices:
                if v.fixed: assert fx[id(v)]==v.pose.tobytes()
            ncalls+=1; continue
        ncalls+=1
        same = np.array_equal(np.asarray(r[0]),np.asarray(r[1]))
        if snap(g)!=s0 or not same: bad+=1; print('IMPURE op',op,k,'state changed',snap(g)!=s0,'repeat differs',not same)
print('C15 calls',ncalls,'bad',bad)
# C09 relations
def close(k,a,b,tol):
    if k in('r2','r3'): return max(abs(x-y) for x,y in zip(a,b))<=tol
    c=[abs(ref.val(x)) for x in ref.compact(k,ref.ominus(k,list(a),list(b)))]; return max(c)<=tol
w=0
for t in range(3000):
    k=['r2','r3','se2','se3'][t%4]; sc=float(10**rng.uniform(-2,4))
    a,b,c=[rand_pose(rng,k,sc) for _ in range(3)]
    if k=='se3':
        for p in (a,b,c):
            r=rng.random()
            if r<0.2: p[3:]=[-x for x in p[3:]]
            elif r<0.35:
                ax=rng.normal(size=3); ax/=np.linalg.norm(ax); p[3:]=list(ax)+[0.0]
    if k=='se2':
        for p in (a,b,c):
            if rng.random()<0.3: p[2]=math.copysign(math.pi-10**rng.uniform(-15,-2),rng.normal())
    A,B,Cc=mkpose(k,a),mkpose(k,b),mkpose(k,c); a,b,c=[list(map(float,x)) for x in (A,B,Cc)]
    tol=64*2.2e-16*max(1,sc)*8
    checks={'oplus':close(k,list(map(float,A+B)),[ref.val(x) for x in ref.oplus(k,a,b)],tol),
            'ominus':close(k,list(map(float,A-B)),[ref.val(x) for x in ref.ominus(k,a,b)],tol),
            'ominus_def':close(k,list(map(float,A-B)),list(map(float,B.inverse+A)),tol),
            'inv':close(k,list(map(float,A.inverse)),[ref.val(x) for x in ref.inv(k,a)],tol),
            'inv_l':close(k,list(map(float,A.inverse+A)),list(map(float,type(A).identity())),tol),
            'inv_r':close(k,list(map(float,A+A.inverse)),list(map(float,type(A).identity())),tol),
            'id':close(k,list(map(float,A+type(A).identity())),a,tol) and close(k,list(map(float,type(A).identity()+A)),a,tol),
            'assoc':close(k,list(map(float,(A+B)+Cc)),list(map(float,A+(B+Cc))),tol*4)}
    if k in('se2','se3'):
        M=(A+B).to_matrix(); checks['matrix']=np.abs(M-A.to_matrix()@B.to_matrix()).max()<=tol
    for n_,ok in checks.items():
        if not ok: print('C09 FAIL',k,n_,sc); w+=1
print('C09 relation failures',w)
