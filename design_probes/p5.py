import numpy as np, math, sys
import ref, gen
from gen import *
rng=np.random.default_rng(int(sys.argv[1]) if len(sys.argv)>1 else 0)
# C03: one-step accuracy black box
for k in ['r2','se2','se3']:
    worst=0; worstrel=0
    for t in range(40):
        spec=make_graph(rng,k,int(rng.integers(3,15)),int(rng.integers(0,5)),int(rng.integers(0,3)),0.05,0.02,0.2,0.1,cond=float(10**rng.uniform(0,4)))
        g=build(spec)
        g._vertices[0].fixed=True
        chi,H,b,idx,free=ref_system(g)
        dx=np.zeros(len(b)); dx[free]=-np.linalg.solve(H[np.ix_(free,free)],b[free])
        cond=np.linalg.cond(H[np.ix_(free,free)])
        before=[list(map(float,v.pose)) for v in g._vertices]
        quiet_opt(g,tol=0,max_iter=1,fix_first_pose=False)
        # extract actual dx
        act=np.zeros(len(b))
        for v,pb in zip(g._vertices,before):
            kk=kind(v.pose); i=idx[v.id]
            rel=ref.ominus(kk,list(map(float,v.pose)),pb)
            act[i:i+ref.CD[kk]]=[ref.val(x) for x in ref.compact(kk,rel)]
        err=np.abs(act-dx).max(); 
        worst=max(worst,err/(1e-16*cond*max(1,np.abs(dx).max())))
        worstrel=max(worstrel,err)
    print('C03',k,'max |dx_act-dx_ref|',worstrel,' in units of eps*cond*|dx|:',worst)
