import numpy as np, math, sys, copy
import ref, gen
from gen import *
from graphslam.edge.base_edge import BaseEdge
seed=int(sys.argv[1]); rng=np.random.default_rng(seed)
# C04 linear graphs
for k in ['r2','r3']:
    worst=0;wchi=0
    for t in range(100):
        n=int(rng.integers(2,31))
        spec=make_graph(rng,k,n,int(rng.integers(0,n)),int(rng.integers(0,4)),0.5,0,0,0,cond=float(10**rng.uniform(0,6)))
        far=float(10**rng.uniform(0,6))
        spec['init']=[list(rng.normal(size=ref.CD[k])*far) for _ in spec['init']]
        spec['linit']=[list(rng.normal(size=ref.CD[k])*far) for _ in spec['linit']]
        nf=int(rng.integers(1,max(2,n//2))); fixed=set(int(x) for x in rng.choice(n,nf,replace=False))
        g=build(spec,fixed=fixed)
        chi,H,b,idx,free=ref_system(g)
        x0=np.concatenate([np.array(v.pose,float) for v in g._vertices])
        xs=x0.copy(); xs[free]=x0[free]-np.linalg.solve(H[np.ix_(free,free)],b[free])
        cond=np.linalg.cond(H[np.ix_(free,free)])
        r=quiet_opt(g,fix_first_pose=False)
        x1=np.concatenate([np.array(v.pose,float) for v in g._vertices])
        # reference chi at xs
        worst=max(worst,np.abs(x1-xs).max()/(2.2e-16*cond*max(1,np.abs(x0).max())))
    print('C04',k,'max |x-x*| /(eps*cond*|x0|)',worst)
# C16 numerical jacobians
class Dist(BaseEdge):
    def is_valid(self): return self._is_valid()
    def calc_error(self): return np.array([np.linalg.norm((self.vertices[0].pose-self.vertices[1].pose).position)-self.estimate])
for k in ['r2','se2','se3']:
    w=0
    for t in range(200):
        a,b=rand_pose(rng,k),rand_pose(rng,k)
        va,vb=Vertex(0,mkpose(k,a)),Vertex(1,mkpose(k,b))
        e=Dist([0,1],np.eye(1),1.0,[va,vb]); J=e.calc_jacobians()
        f0=lambda d: [ref.sqrt(sum(x*x for x in ref.ominus(k,ref.box(k,a,d),b)[:len(a) if k in('r2','r3') else (2 if k=='se2' else 3)]))-1.0]
        f1=lambda d: [ref.sqrt(sum(x*x for x in ref.ominus(k,a,ref.box(k,b,d))[:len(a) if k in('r2','r3') else (2 if k=='se2' else 3)]))-1.0]
        _,J0=ref.jac(f0,ref.CD[k]); _,J1=ref.jac(f1,ref.CD[k])
        w=max(w,np.abs(J[0]-J0).max(),np.abs(J[1]-J1).max())
    print('C16 dist',k,'max |Jnum-Jtrue|',w)
