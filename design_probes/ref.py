"""Scratch independent reference model (generic scalar: float / Dual)."""
import math, numpy as np

class Dual:
    __slots__=("v","g")
    def __init__(s,v,g): s.v=float(v); s.g=np.asarray(g,dtype=float)
    @staticmethod
    def lift(x,n): return x if isinstance(x,Dual) else Dual(x,np.zeros(n))
    def _c(s,o): return o if isinstance(o,Dual) else Dual(o,np.zeros_like(s.g))
    def __add__(s,o): o=s._c(o); return Dual(s.v+o.v,s.g+o.g)
    __radd__=__add__
    def __sub__(s,o): o=s._c(o); return Dual(s.v-o.v,s.g-o.g)
    def __rsub__(s,o): o=s._c(o); return Dual(o.v-s.v,o.g-s.g)
    def __mul__(s,o): o=s._c(o); return Dual(s.v*o.v,s.v*o.g+o.v*s.g)
    __rmul__=__mul__
    def __truediv__(s,o): o=s._c(o); return Dual(s.v/o.v,(s.g*o.v-s.v*o.g)/(o.v*o.v))
    def __neg__(s): return Dual(-s.v,-s.g)
def sin(x): return Dual(math.sin(x.v),math.cos(x.v)*x.g) if isinstance(x,Dual) else math.sin(x)
def cos(x): return Dual(math.cos(x.v),-math.sin(x.v)*x.g) if isinstance(x,Dual) else math.cos(x)
def sqrt(x):
    if isinstance(x,Dual):
        r=math.sqrt(x.v); return Dual(r, x.g/(2*r) if r>0 else np.zeros_like(x.g))
    return math.sqrt(x)
def val(x): return x.v if isinstance(x,Dual) else float(x)
def wrap(a):  # to (-pi,pi], value only shifts by constant
    v=val(a); k=round(v/(2*math.pi)); r=a-k*2*math.pi
    return r

# --- SE2 as (x,y,th) via matrices
def se2_mat(p):
    c,s=cos(p[2]),sin(p[2]); return [[c,-s,p[0]],[s,c,p[1]],[0.,0.,1.]]
def matmul(A,B): 
    n=len(A); m=len(B[0]); k=len(B)
    return [[sum((A[i][l]*B[l][j] for l in range(1,k)),A[i][0]*B[0][j]) for j in range(m)] for i in range(n)]
def se2_oplus(a,b): return [a[0]+cos(a[2])*b[0]-sin(a[2])*b[1], a[1]+sin(a[2])*b[0]+cos(a[2])*b[1], a[2]+b[2]]
def se2_inv(a):
    c,s=cos(a[2]),sin(a[2]); return [-(c*a[0]+s*a[1]), -(-s*a[0]+c*a[1]), -a[2]]
def se2_act(a,pt): return [a[0]+cos(a[2])*pt[0]-sin(a[2])*pt[1], a[1]+sin(a[2])*pt[0]+cos(a[2])*pt[1]]
# --- quaternion (x,y,z,w) Hamilton
def qmul(a,b):
    ax,ay,az,aw=a; bx,by,bz,bw=b
    return [aw*bx+bw*ax+(ay*bz-az*by), aw*by+bw*ay+(az*bx-ax*bz), aw*bz+bw*az+(ax*by-ay*bx), aw*bw-(ax*bx+ay*by+az*bz)]
def qconj(a): return [-a[0],-a[1],-a[2],a[3]]
def qrot(q,v):  # q v q* for unit q, via Hamilton products (independent of the R(q) polynomial in the repo)
    r=qmul(qmul(q,[v[0],v[1],v[2],0.0]),qconj(q)); return r[:3]
def se3_oplus(a,b):
    t=qrot(a[3:],b[:3]); return [a[0]+t[0],a[1]+t[1],a[2]+t[2]]+qmul(a[3:],b[3:])
def se3_inv(a):
    qi=qconj(a[3:]); t=qrot(qi,a[:3]); return [-t[0],-t[1],-t[2]]+qi
def se3_act(a,pt):
    t=qrot(a[3:],pt); return [a[0]+t[0],a[1]+t[1],a[2]+t[2]]
def se3_box(p,d):
    n2=d[3]*d[3]+d[4]*d[4]+d[5]*d[5]
    w=sqrt(1.0-n2)
    return se3_oplus(p,[d[0],d[1],d[2],d[3],d[4],d[5],w])
KIND={2:'r2',3:None}
def oplus(k,a,b):
    if k in('r2','r3'): return [x+y for x,y in zip(a,b)]
    return se2_oplus(a,b) if k=='se2' else se3_oplus(a,b)
def inv(k,a):
    if k in('r2','r3'): return [-x for x in a]
    return se2_inv(a) if k=='se2' else se3_inv(a)
def ominus(k,a,b): return oplus(k,inv(k,b),a)   # a (-) b = b^-1 (+) a
def box(k,p,d):
    if k in('r2','r3'): return [x+y for x,y in zip(p,d)]
    return se2_oplus(p,d) if k=='se2' else se3_box(p,d)
def act(k,a,pt):
    if k in('r2','r3'): return [x+y for x,y in zip(a,pt)]
    return se2_act(a,pt) if k=='se2' else se3_act(a,pt)
def compact(k,a):
    if k=='se2': return [a[0],a[1],wrap(a[2])]
    if k=='se3': return a[:6]
    return list(a)
CD={'r2':2,'r3':3,'se2':3,'se3':6}
def odo_err(k,p1,p2,z): return compact(k,ominus(k,z,ominus(k,p2,p1)))
def lm_err(k,p1,l,z,off):
    pt=act(k,inv(k,oplus(k,p1,off)),l); return [a-b for a,b in zip(pt,z)]
def jac(f,n):
    """f: list-of-Dual delta -> list of scalars. returns (value, jacobian) at delta=0"""
    d=[Dual(0.0,np.eye(n)[i]) for i in range(n)]
    out=f(d)
    return np.array([val(o) for o in out]), np.array([ (o.g if isinstance(o,Dual) else np.zeros(n)) for o in out])
