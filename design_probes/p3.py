import numpy as np, warnings, traceback, io, contextlib, tempfile, os
from graphslam.graph import Graph
from graphslam.vertex import Vertex
from graphslam.edge.edge_odometry import EdgeOdometry
from graphslam.edge.edge_landmark import EdgeLandmark
from graphslam.edge.base_edge import BaseEdge
from graphslam.g2o_parameters import G2OParameterSE2Offset, G2OParameterSE3Offset
from graphslam.pose.r2 import PoseR2
from graphslam.pose.r3 import PoseR3
from graphslam.pose.se2 import PoseSE2
from graphslam.pose.se3 import PoseSE3
rng=np.random.default_rng(1)
def rq():
    q=rng.normal(size=4); return q/np.linalg.norm(q)
def spd(n):
    A=rng.normal(size=(n,n)); return A@A.T+n*np.eye(n)*0.1

print("== C08 quaternion sign with cross-term information")
p1=PoseSE3(rng.normal(size=3),rq()); p2=PoseSE3(rng.normal(size=3),rq()); z=PoseSE3(rng.normal(size=3),rq())
Om=spd(6)
def chi(p1,p2,z,Om):
    v=[Vertex(0,p1),Vertex(1,p2)]; e=EdgeOdometry([0,1],Om,z); g=Graph([e],v); return g.calc_chi2()
def neg(p): return PoseSE3(p[:3],-p[3:])
print(chi(p1,p2,z,Om), chi(neg(p1),p2,z,Om), chi(p1,neg(p2),z,Om), chi(p1,p2,neg(z),Om), chi(neg(p1),neg(p2),z,Om))
Omb=np.zeros((6,6)); Omb[:3,:3]=spd(3); Omb[3:,3:]=spd(3)
print('blockdiag', chi(p1,p2,z,Omb), chi(neg(p1),p2,z,Omb))

print("== C13 SE2 landmark offset export")
vs=[Vertex(0,PoseSE2([0,0],0.3)),Vertex(1,PoseR2([2,1]))]
off=PoseSE2([0.5,0.1],0.7)
e=EdgeLandmark([0,1],np.eye(2),PoseR2([1.5,1]),off,offset_id=0)
g=Graph([e],vs); g._g2o_params={("PARAMS_SE2OFFSET",0):G2OParameterSE2Offset(("PARAMS_SE2OFFSET",0),off)}
d=tempfile.mkdtemp(); f=os.path.join(d,'a.g2o'); g.to_g2o(f); print(open(f).read())
g2=Graph.from_g2o(f); print('chi2 before', g.calc_chi2(), 'after', g2.calc_chi2(), 'equals', g.equals(g2), 'offset after', g2._edges[0].offset)

print("== C13 SE3 landmark w/o params dict")
vs=[Vertex(0,PoseSE3([0,0,0],[0,0,0,1])),Vertex(1,PoseR3([2,1,0]))]
off3=PoseSE3([0.5,0.1,0],rq())
e=EdgeLandmark([0,1],np.eye(3),PoseR3([1.5,1,0]),off3,offset_id=3)
g=Graph([e],vs); g.to_g2o(f); print(open(f).read())
try:
    Graph.from_g2o(f)
except Exception as ex: print('reload RAISES', type(ex).__name__, ex)

print("== C13 R2-only graph with R2 odometry edge")
vs=[Vertex(0,PoseR2([0,0])),Vertex(1,PoseR2([2,1]))]
g=Graph([EdgeOdometry([0,1],np.eye(2),PoseR2([1,1]))],vs)
try: g.to_g2o(f)
except Exception as ex: print('to_g2o RAISES', type(ex).__name__); print(repr(open(f).read()))

print("== C13 extremes")
vs=[Vertex(-5,PoseSE2([1e300,-1e-300],3.0)),Vertex(2**70,PoseSE2([1/3,2/3],-3.1))]
g=Graph([EdgeOdometry([-5,2**70],spd(3)*1e-200,PoseSE2([1e-300,5e-324],1e-20))],vs); g.to_g2o(f); print(open(f).read())
g2=Graph.from_g2o(f); print([v.id for v in g2._vertices],[tuple(v.pose) for v in g2._vertices], tuple(g2._edges[0].estimate), np.array_equal(g2._edges[0].information,g._edges[0].information))

print("== C15 numerical jacobian side effect on SE2 pose bits")
class E(BaseEdge):
    def is_valid(self): return self._is_valid()
    def calc_error(self): return np.array([np.linalg.norm((self.vertices[0].pose-self.vertices[1].pose).position)-self.estimate])
cnt=0
for k in range(2000):
    a=PoseSE2(rng.normal(size=2),rng.normal()*1.5); b=PoseSE2(rng.normal(size=2),rng.normal())
    va,vb=Vertex(0,a),Vertex(1,b); e=E([0,1],np.eye(1),1.0,[va,vb])
    ba,bb=va.pose.tobytes(),vb.pose.tobytes(); ida=id(va.pose)
    e.calc_jacobians()
    if va.pose.tobytes()!=ba or vb.pose.tobytes()!=bb: cnt+=1
print('pose bits changed in', cnt, 'of 2000; identity changed:', id(va.pose)!=ida)
# SE3 non-unit quaternion
a=PoseSE3(rng.normal(size=3),rq()); b=PoseSE3(rng.normal(size=3),rq())
va,vb=Vertex(0,a),Vertex(1,b); e=E([0,1],np.eye(1),1.0,[va,vb]); ba=va.pose.tobytes(); e.calc_jacobians(); print('SE3 changed', va.pose.tobytes()!=ba)

print("== C18 landmark with wrong endpoint types")
def tryg(edges,vs):
    try: g=Graph(edges,vs); print('  accepted;', end=' ')
    except Exception as ex: print('  rejected', type(ex).__name__); return
    try: g._calc_chi2_gradient_hessian(); print('usable')
    except Exception as ex: print('UNUSABLE', type(ex).__name__, str(ex)[:80])
tryg([EdgeLandmark([0,1],np.eye(3),PoseSE2([1,1],0),PoseSE2.identity(),0)],[Vertex(0,PoseSE2([0,0],0)),Vertex(1,PoseSE2([1,1],0))])
tryg([EdgeLandmark([0,1],np.eye(6),PoseSE3([1,1,0],[0,0,0,1]),PoseSE2.identity(),0)],[Vertex(0,PoseSE2([0,0],0)),Vertex(1,PoseSE3([1,1,0],[0,0,0,1]))])
tryg([EdgeLandmark([0,1],np.eye(3),PoseR3([1,1,0]),PoseSE2.identity(),0)],[Vertex(0,PoseSE2([0,0],0)),Vertex(1,PoseR3([1,1,0]))])
tryg([EdgeLandmark([0,1],np.eye(2),PoseR2([1,1]),PoseR3.identity(),0)],[Vertex(0,PoseR3([0,0,0])),Vertex(1,PoseR2([1,1]))])
tryg([EdgeLandmark([0,1],np.eye(2),PoseR2([1,1]),PoseSE3.identity(),0)],[Vertex(0,PoseSE3([0,0,0],[0,0,0,1])),Vertex(1,PoseR2([1,1]))])
tryg([EdgeLandmark([0,1],np.eye(2),PoseR2([1,1]),PoseR2.identity(),0)],[Vertex(0,PoseR2([0,0])),Vertex(1,PoseR2([1,1]))])
tryg([EdgeLandmark([0,1],np.eye(3),PoseR3([1,1,1]),PoseR3.identity(),0)],[Vertex(0,PoseR3([0,0,0])),Vertex(1,PoseR3([1,1,1]))])
tryg([EdgeOdometry([0,1],np.eye(3),np.zeros(3))],[Vertex(0,PoseSE2([0,0],0)),Vertex(1,PoseSE2([1,1],0))])
tryg([EdgeOdometry([0,1],np.eye(3).tolist(),PoseSE2([1,1],0))],[Vertex(0,PoseSE2([0,0],0)),Vertex(1,PoseSE2([1,1],0))])
