# C17 band probe: single-component perturbations, both directions, all object kinds (same-type pairs)
import numpy as np, math, sys, copy
import ref, gen
from gen import *
rng=np.random.default_rng(int(sys.argv[1]))
und=0; bad=0; n=0
def judge(name,x,y,tol,f):
    global bad,n,und
    n+=1
    try: a=x.equals(y,tol); b=y.equals(x,tol)
    except Exception as ex: print('RAISE',name,type(ex).__name__); bad+=1; return
    if f<=0.1: exp=True
    elif f>=10: exp=False
    else: und+=1; return
    if a!=exp or b!=exp: bad+=1; print('MISMATCH',name,'f',f,'tol',tol,a,b,'exp',exp)
for t in range(4000):
    k=['r2','r3','se2','se3'][t%4]; tol=float(10**rng.uniform(-12,-2)); f=float(10**rng.uniform(-12,3))
    sc=float(10**rng.uniform(-9,4)) if rng.random()<0.7 else 0.0
    p=rand_pose(rng,k,sc); P=mkpose(k,p); arr=np.array(P,float)
    comp=int(rng.integers(0,len(arr))); s=max(np.linalg.norm(arr),tol); delta=f*tol*s*(1 if rng.random()<.5 else -1)
    arr2=arr.copy(); arr2[comp]+=delta
    if k=='se2' and comp==2 and abs(arr2[2])>math.pi: continue
    Q=P.copy(); Q[comp]=arr2[comp]
    actual=np.linalg.norm(np.array(Q)-arr)/s/tol   # actual achieved factor after rounding
    if not (0.5*f<=actual<=2*f or f<1e-3): continue
    judge('pose '+k,P,Q,tol,f)
    judge('vertex '+k,Vertex(3,P),Vertex(3,Q),tol,f)
    z=mkpose(k,rand_pose(rng,k,1.0)); info=spd(rng,ref.CD[k],10.)
    e1=EdgeOdometry([1,2],info,P); e2=EdgeOdometry([1,2],info.copy(),Q); judge('odo-est '+k,e1,e2,tol,f)
    # information perturbation
    info2=info.copy(); i,j=rng.integers(0,ref.CD[k],2); sI=max(np.linalg.norm(info),tol); info2[i,j]+=f*tol*sI
    judge('odo-info '+k,EdgeOdometry([1,2],info,z),EdgeOdometry([1,2],info2,z.copy()),tol,f)
    if k in('se2','se3'):
        kp={'se2':'r2','se3':'r3'}[k]; zz=mkpose(kp,rand_pose(rng,kp,1.0)); inf=spd(rng,ref.CD[kp],10.)
        judge('lm-offset '+k,EdgeLandmark([1,2],inf,zz,P,0),EdgeLandmark([1,2],inf.copy(),zz.copy(),Q,0),tol,f)
print('pairs',n,'undecided(band)',und,'bad',bad)
