# C03 hostile configurations: mixed dims, reversed edges, parallel edges, custom unary/ternary, several fixed, shuffled lists
import numpy as np, math, sys
import ref, gen
from gen import *
from graphslam.edge.base_edge import BaseEdge
rng=np.random.default_rng(int(sys.argv[1]))
class Prior(BaseEdge):   # unary, numeric jacobian
    def is_valid(self): return self._is_valid()
    def calc_error(self): return (self.vertices[0].pose-self.estimate).to_compact()
class Mid(BaseEdge):     # ternary positions: p0+p2-2p1
    def is_valid(self): return self._is_valid()
    def calc_error(self):
        a,b,c=[v.pose.position for v in self.vertices]; return a+c-2*b-self.estimate
def dense_from_real(g):
    idx={};n=0
    for v in g._vertices: idx[id(v)]=n; n+=v.pose.COMPACT_DIMENSIONALITY
    H=np.zeros((n,n)); b=np.zeros(n)
    for e in g._edges:
        er=np.asarray(e.calc_error(),float); J=e.calc_jacobians(); Om=np.asarray(e.information)
        for v,Ja in zip(e.vertices,J):
            ia=idx[id(v)]; b[ia:ia+Ja.shape[1]]+=Ja.T@Om@er
            for w,Jb in zip(e.vertices,J):
                ib=idx[id(w)]; H[ia:ia+Ja.shape[1],ib:ib+Jb.shape[1]]+=Ja.T@Om@Jb
    free=np.ones(n,bool)
    for v in g._vertices:
        if v.fixed: free[idx[id(v)]:idx[id(v)]+v.pose.COMPACT_DIMENSIONALITY]=False
    return H,b,idx,free
worst=0; ncase=0; cls={'rev':0,'par':0,'mixed':0,'tern':0,'unary':0}
for t in range(150):
    kinds=[['r2','se2'],['r3','se3'],['r2','r3','se2','se3'],['se2'],['se3']][t%5]
    vs=[];es=[]; vid=0; comps=[]
    for k in kinds:
        n=int(rng.integers(2,6)); kp={'se2':'r2','se3':'r3','r2':'r2','r3':'r3'}[k]
        spec=make_graph(rng,k,n,int(rng.integers(0,3)),int(rng.integers(0,2)),0.05,0.02,0.15,0.08,cond=100.)
        base=vid; loc=[Vertex(base+i,mkpose(k,p)) for i,p in enumerate(spec['init'])]+[Vertex(base+n+m,mkpose(kp,p)) for m,p in enumerate(spec['linit'])]
        vid+=len(loc)+int(rng.integers(0,5))
        loc[0].fixed=True
        if rng.random()<0.4 and n>2: loc[int(rng.integers(1,n))].fixed=True
        for e in spec['edges']:
            if e[0]=='odo':
                i,j=e[1],e[2]; z=e[3]
                if rng.random()<0.4:   # reverse: measurement inverse
                    i,j=j,i; z=[ref.val(x) for x in ref.inv(k,z)]; cls['rev']+=1
                ed=EdgeOdometry([base+i,base+j],e[4].copy(),mkpose(k,z)); es.append(ed)
                if rng.random()<0.3: es.append(EdgeOdometry([base+i,base+j],spd(rng,ref.CD[k],50.),mkpose(k,perturb(rng,k,z,0.02,0.01)))); cls['par']+=1
            else: es.append(EdgeLandmark([base+e[1],base+e[2]],e[4].copy(),mkpose(kp,e[3]),mkpose(k,e[5]),0))
        if rng.random()<0.5: es.append(Prior([base+1],spd(rng,ref.CD[k],10.),mkpose(k,spec['truth'][1]))); cls['unary']+=1
        if n>=3 and rng.random()<0.5:
            d=len(loc[0].pose.position); ids=[base+int(x) for x in rng.permutation(n)[:3]]
            es.append(Mid(ids,spd(rng,d,10.),rng.normal(size=d)*0.1)); cls['tern']+=1
        vs+=loc
    if len(kinds)>1: cls['mixed']+=1
    vs=[vs[i] for i in rng.permutation(len(vs))]; es=[es[i] for i in rng.permutation(len(es))]
    g=Graph(es,vs)
    H,b,idx,free=dense_from_real(g)
    dx=np.zeros(len(b)); dx[free]=-np.linalg.solve(H[np.ix_(free,free)],b[free]); cond=np.linalg.cond(H[np.ix_(free,free)])
    before={id(v):list(map(float,v.pose)) for v in g._vertices}
    quiet_opt(g,tol=0,max_iter=1,fix_first_pose=False)
    act=np.zeros(len(b))
    for v in g._vertices:
        kk=kind(v.pose); i=idx[id(v)]
        act[i:i+ref.CD[kk]]=[ref.val(x) for x in ref.compact(kk,ref.ominus(kk,list(map(float,v.pose)),before[id(v)]))]
    if any(kind(v.pose)=='se3' and np.linalg.norm(dx[idx[id(v)]+3:idx[id(v)]+6])>1 for v in g._vertices): continue
    err=np.abs(act-dx).max()/(2.2e-16*cond*max(1,np.abs(dx).max())); worst=max(worst,err); ncase+=1
print('cases',ncase,cls,'worst normalized',worst)
