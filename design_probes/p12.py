import numpy as np, math, sys
import ref, gen
from gen import *
seed=int(sys.argv[1]); rng=np.random.default_rng(seed)
def hostile(k):
    p=rand_pose(rng,k,float(10**rng.uniform(-2,4)))
    r=rng.random()
    if k=='se2':
        if r<0.2: p[2]=math.pi-10**rng.uniform(-15,-1)
        elif r<0.4: p[2]=-math.pi+10**rng.uniform(-15,-1)
        elif r<0.5: p[2]=0.0
    if k=='se3':
        if r<0.15: p[3:]=[0,0,0,1.]
        elif r<0.3: # w=0
            ax=rng.normal(size=3); ax/=np.linalg.norm(ax); p[3:]=list(ax)+[0.0]
        elif r<0.5: p[3:]=[-x for x in p[3:]] if p[6]>0 else p[3:]
        elif r<0.6: 
            ax=np.eye(3)[rng.integers(0,3)]; p[3:]=list(ax)+[0.0]
    return p
worst={}
for k in ['r2','r3','se2','se3']:
    kp={'se2':'r2','se3':'r3','r2':'r2','r3':'r3'}[k]
    c=ref.CD[k]
    for t in range(300):
        a,b=hostile(k),hostile(k); pt=rand_pose(rng,kp,5.0)
        A,B,PT=mkpose(k,a),mkpose(k,b),mkpose(kp,pt)
        a,b=list(map(float,A)),list(map(float,B))   # after wrap
        sc=max(1,max(abs(x) for x in a+b))
        def chk(name,J,f,n,operandJb,compact=False,shape=None):
            v,Jt=ref.jac(f,n)
            Jc=J@operandJb
            d=np.abs(Jc-Jt).max()/sc
            worst[(k,name)]=max(worst.get((k,name),0),d)
            if shape is not None and J.shape!=shape: print('SHAPE',k,name,J.shape,shape)
        full=lambda x:x
        na=len(a)
        cm=(lambda l: l[:6]) if k=='se3' else (lambda l:l)
        JbA,JbB,JbP=A.jacobian_boxplus(),B.jacobian_boxplus(),PT.jacobian_boxplus()
        chk('oplus_wrt_self',A.jacobian_self_oplus_other_wrt_self(B),lambda d: ref.oplus(k,ref.box(k,a,d),b),c,JbA,shape=(na,na))
        chk('oplus_wrt_self_c',A.jacobian_self_oplus_other_wrt_self_compact(B),lambda d: cm(ref.oplus(k,ref.box(k,a,d),b)),c,JbA,shape=(c,na))
        chk('oplus_wrt_other',A.jacobian_self_oplus_other_wrt_other(B),lambda d: ref.oplus(k,a,ref.box(k,b,d)),c,JbB,shape=(na,na))
        chk('oplus_wrt_other_c',A.jacobian_self_oplus_other_wrt_other_compact(B),lambda d: cm(ref.oplus(k,a,ref.box(k,b,d))),c,JbB,shape=(c,na))
        chk('ominus_wrt_self',A.jacobian_self_ominus_other_wrt_self(B),lambda d: ref.ominus(k,ref.box(k,a,d),b),c,JbA,shape=(na,na))
        chk('ominus_wrt_self_c',A.jacobian_self_ominus_other_wrt_self_compact(B),lambda d: cm(ref.ominus(k,ref.box(k,a,d),b)),c,JbA,shape=(c,na))
        chk('ominus_wrt_other',A.jacobian_self_ominus_other_wrt_other(B),lambda d: ref.ominus(k,a,ref.box(k,b,d)),c,JbB,shape=(na,na))
        chk('ominus_wrt_other_c',A.jacobian_self_ominus_other_wrt_other_compact(B),lambda d: cm(ref.ominus(k,a,ref.box(k,b,d))),c,JbB,shape=(c,na))
        chk('boxplus',JbA,lambda d: ref.box(k,a,d),c,np.eye(c),shape=(na,c))
        chk('point_wrt_self',A.jacobian_self_oplus_point_wrt_self(PT),lambda d: ref.act(k,ref.box(k,a,d),pt),c,JbA,shape=(len(pt),na))
        chk('point_wrt_point',A.jacobian_self_oplus_point_wrt_point(PT),lambda d: ref.act(k,a,ref.box(kp,pt,d)),len(pt),JbP,shape=(len(pt),len(pt)))
        chk('inverse',A.jacobian_inverse(),lambda d: ref.inv(k,ref.box(k,a,d)),c,JbA,shape=(na,na))
for key in sorted(worst): print(key, '%.2e'%worst[key])
