import numpy as np, math, warnings, io, contextlib
from graphslam.graph import Graph
from graphslam.vertex import Vertex
from graphslam.edge.edge_odometry import EdgeOdometry
from graphslam.edge.edge_landmark import EdgeLandmark
from graphslam.pose.r2 import PoseR2
from graphslam.pose.r3 import PoseR3
from graphslam.pose.se2 import PoseSE2
from graphslam.pose.se3 import PoseSE3
import ref
CLS={'r2':PoseR2,'r3':PoseR3,'se2':PoseSE2,'se3':PoseSE3}
def kind(p): return {PoseR2:'r2',PoseR3:'r3',PoseSE2:'se2',PoseSE3:'se3'}[type(p)]
def mkpose(k,l):
    if k=='r2': return PoseR2(l)
    if k=='r3': return PoseR3(l)
    if k=='se2': return PoseSE2(l[:2],l[2])
    return PoseSE3(l[:3],l[3:])
def rq(rng):
    q=rng.normal(size=4); return q/np.linalg.norm(q)
def small_rot(rng,k,mag):
    if k=='se2': return [rng.uniform(-mag,mag)]
    ax=rng.normal(size=3); ax/=np.linalg.norm(ax); a=rng.uniform(0,mag)
    return list(ax*math.sin(a/2))+[math.cos(a/2)]
def rand_pose(rng,k,scale=5.0):
    if k=='r2': return list(rng.normal(size=2)*scale)
    if k=='r3': return list(rng.normal(size=3)*scale)
    if k=='se2': return list(rng.normal(size=2)*scale)+[rng.uniform(-math.pi,math.pi)]
    return list(rng.normal(size=3)*scale)+list(rq(rng))
def spd(rng,n,cond=10.0,cross=True):
    A=rng.normal(size=(n,n)); Q,_=np.linalg.qr(A)
    ev=np.exp(rng.uniform(0,math.log(cond),n))
    M=Q@np.diag(ev)@Q.T
    M=(M+M.T)/2
    if not cross and n==6:
        M[:3,3:]=0; M[3:,:3]=0
    return M
def perturb(rng,k,p,tmag,rmag):
    """right-perturb pose p (list) by noise"""
    if k in('r2','r3'): return [x+rng.normal()*tmag for x in p]
    if k=='se2': d=list(rng.normal(size=2)*tmag)+[rng.normal()*rmag]; return ref.se2_oplus(p,d)
    ax=rng.normal(size=3); ax/=np.linalg.norm(ax); a=rng.normal()*rmag
    d=list(rng.normal(size=3)*tmag)+list(ax*math.sin(a/2))+[math.cos(a/2)]
    return ref.se3_oplus(p,d)
def make_graph(rng,k,n,n_loops,n_lm,meas_t,meas_r,init_t,init_r,cond=10.0,cross=True,scale=5.0,step=1.0):
    """ground truth trajectory; returns (vertices_truth(list of lists), edges spec, init)"""
    kp={'se2':'r2','se3':'r3','r2':'r2','r3':'r3'}[k]
    truth=[rand_pose(rng,k,0.0) if k in('r2','r3') else ( [0.,0.,0.] if k=='se2' else [0.,0.,0.,0.,0.,0.,1.])]
    for i in range(1,n):
        if k in('r2','r3'): stepv=list(rng.normal(size=ref.CD[k])*step)
        elif k=='se2': stepv=[step+rng.normal()*0.1, rng.normal()*0.1, rng.uniform(-0.6,0.6)]
        else:
            ax=rng.normal(size=3); ax/=np.linalg.norm(ax); a=rng.uniform(-0.6,0.6)
            stepv=[step+rng.normal()*0.1, rng.normal()*0.1, rng.normal()*0.1]+list(ax*math.sin(a/2))+[math.cos(a/2)]
        truth.append(ref.oplus(k,truth[-1],stepv))
    truth=[[ref.val(x) for x in t] for t in truth]
    edges=[]
    pairs=[(i,i+1) for i in range(n-1)]
    for _ in range(n_loops):
        i,j=rng.choice(n,2,replace=False); pairs.append((int(i),int(j)))
    for (i,j) in pairs:
        z=ref.ominus(k,truth[j],truth[i]); z=perturb(rng,k,z,meas_t,meas_r)
        edges.append(('odo',i,j,[ref.val(x) for x in z],spd(rng,ref.CD[k],cond,cross)))
    lms=[]
    for m in range(n_lm):
        L=list(rng.normal(size=ref.CD[kp])*scale)
        lms.append(L)
        obs=rng.choice(n,size=min(n,3),replace=False)
        off=rand_pose(rng,k,0.3)
        for i in obs:
            z=ref.act(k,ref.inv(k,ref.oplus(k,truth[int(i)],off)),L); z=[ref.val(x)+rng.normal()*meas_t for x in z]
            edges.append(('lm',int(i),n+m,z,spd(rng,ref.CD[kp],cond),off))
    init=[perturb(rng,k,t,init_t,init_r) for t in truth]; init[0]=list(truth[0])
    init=[[ref.val(x) for x in t] for t in init]
    linit=[[x+rng.normal()*init_t for x in L] for L in lms]
    return dict(k=k,kp=kp,truth=truth,lms=lms,edges=edges,init=init,linit=linit)
def build(spec,fixed=(0,)):
    k,kp=spec['k'],spec['kp']
    vs=[Vertex(i,mkpose(k,p),fixed=(i in fixed)) for i,p in enumerate(spec['init'])]
    n=len(vs)
    vs+=[Vertex(n+m,mkpose(kp,p)) for m,p in enumerate(spec['linit'])]
    es=[]
    for e in spec['edges']:
        if e[0]=='odo': es.append(EdgeOdometry([e[1],e[2]],e[4].copy(),mkpose(k,e[3])))
        else: es.append(EdgeLandmark([e[1],e[2]],e[4].copy(),mkpose(kp,e[3]),mkpose(k,e[5]),offset_id=0))
    return Graph(es,vs)
def ref_system(g,fixed_idx=None):
    """dense reference H,b from reference error + AD jacobians; returns chi2,H,b,index map"""
    vs=g._vertices; idx={}; n=0
    for v in vs: idx[v.id]=n; n+=ref.CD[kind(v.pose)]
    H=np.zeros((n,n)); b=np.zeros(n); chi=0.0
    for e in g._edges:
        v0,v1=e.vertices; k0,k1=kind(v0.pose),kind(v1.pose)
        l0,l1=list(map(float,v0.pose)),list(map(float,v1.pose)); z=list(map(float,e.estimate))
        if isinstance(e,EdgeOdometry):
            f0=lambda d: ref.odo_err(k0,ref.box(k0,l0,d),l1,z); f1=lambda d: ref.odo_err(k0,l0,ref.box(k1,l1,d),z)
        else:
            off=list(map(float,e.offset))
            f0=lambda d: ref.lm_err(k0,ref.box(k0,l0,d),l1,z,off); f1=lambda d: ref.lm_err(k0,l0,ref.box(k1,l1,d),z,off)
        er,J0=ref.jac(f0,ref.CD[k0]); _,J1=ref.jac(f1,ref.CD[k1])
        Om=np.asarray(e.information); chi+=er@Om@er
        for (va,Ja) in ((v0,J0),(v1,J1)):
            ia=idx[va.id]; b[ia:ia+Ja.shape[1]]+=Ja.T@Om@er
            for (vb,Jb) in ((v0,J0),(v1,J1)):
                ib=idx[vb.id]; H[ia:ia+Ja.shape[1],ib:ib+Jb.shape[1]]+=Ja.T@Om@Jb
    free=np.ones(n,bool)
    for v in vs:
        if v.fixed: free[idx[v.id]:idx[v.id]+ref.CD[kind(v.pose)]]=False
    return chi,H,b,idx,free
def quiet_opt(g,**kw):
    with warnings.catch_warnings():
        warnings.simplefilter('ignore')
        return g.optimize(verbose=False,**kw)
