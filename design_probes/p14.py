import numpy as np, math, sys, logging, tempfile, os
from graphslam.graph import Graph
from graphslam import load
logging.basicConfig(level=logging.WARNING)
txt="\r\n".join([
"PARAMS_SE3OFFSET 7   0.1 -0.2 3e-1  0 0 0.6 -0.8",
"# a comment",
"",
"VERTEX_SE3:QUAT 5 1 2 3   0 0 0.6 0.8",
"VERTEX_TRACKXYZ  -9 +1.5 -2.5E+0 .5",
"VERTEX_SE2 1 1e0 2 7.0",
"   ",
"VERTEX_XY 2 1_0 2",
"FIX 5",
"EDGE_SE3_TRACKXYZ 5 -9 7   1 2 3   1 0.1 0.2 2 0.3 3",
"EDGE_SE2_XY 1 2  0.5 0.25  4 1 9",
"EDGE_SE2 1 1 0 0 0  1 2 3 4 5 6",
"EDGE_SE3:QUAT 5 5 1 2 3 0 0 -0.6 -0.8  "+" ".join(str(i) for i in range(1,22)),
"VERTEX_SE2\t3 1 2 3",
" VERTEX_SE2 4 1 2 3",
"vertex_se2 6 1 2 3",
])+"\r\n"
d=tempfile.mkdtemp(); f=os.path.join(d,'t.g2o'); open(f,'w',newline='').write(txt)
g=Graph.from_g2o(f)
for v in g._vertices: print('V',v.id,type(v.pose).__name__,list(v.pose))
for e in g._edges: print('E',type(e).__name__,e.vertex_ids,list(e.estimate),getattr(e,'offset',None),getattr(e,'offset_id',None)); print(e.information)
print(g._g2o_params)
