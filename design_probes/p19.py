# C18 exhaustive enumeration: accept/raise vs consistency table vs usability
import numpy as np, itertools, warnings, collections
from graphslam.graph import Graph
from graphslam.vertex import Vertex
from graphslam.edge.edge_odometry import EdgeOdometry
from graphslam.edge.edge_landmark import EdgeLandmark
from graphslam.pose.r2 import PoseR2
from graphslam.pose.r3 import PoseR3
from graphslam.pose.se2 import PoseSE2
from graphslam.pose.se3 import PoseSE3
T=[PoseR2,PoseR3,PoseSE2,PoseSE3]; C={PoseR2:2,PoseR3:3,PoseSE2:3,PoseSE3:6}
def mk(t):
    if t is None: return None
    if t=='arr': return np.array([0.1,0.2,0.3])
    if t is PoseR2: return PoseR2([0.3,-0.2])
    if t is PoseR3: return PoseR3([0.3,-0.2,0.5])
    if t is PoseSE2: return PoseSE2([0.3,-0.2],0.4)
    return PoseSE3([0.3,-0.2,0.5],[0.1,0.2,-0.3,np.sqrt(1-0.14)])
LM={(PoseSE2,PoseR2),(PoseSE3,PoseR3),(PoseR2,PoseR2),(PoseR3,PoseR3)}
stats=collections.Counter(); viol=collections.Counter(); n=0
for kind in ('odo','lm'):
  for nv in (1,2,3):
    for ends in itertools.product(T,repeat=nv):
      for est in T+['arr']:
        for off in (T+[None] if kind=='lm' else [None]):
          for dim in range(1,8):
            for present in (True,False):
                vs=[Vertex(10+i,mk(t)) for i,t in enumerate(ends)]
                ids=[v.id for v in vs]
                if not present: ids[-1]=999
                info=np.eye(dim)
                e=EdgeOdometry(ids,info,mk(est)) if kind=='odo' else EdgeLandmark(ids,info,mk(est),mk(off),0)
                if kind=='odo': cons= nv==2 and ends[0] is ends[1] and est is ends[0] and dim==C[ends[0]]
                else: cons= nv==2 and (ends[0],ends[1]) in LM and off is ends[0] and est is ends[1] and dim==C[ends[1]]
                cons = cons and present
                n+=1
                try:
                    g=Graph([e],vs[::-1]); acc=True
                except Exception as ex: acc=False
                stats[(cons,acc)]+=1
                if acc and not cons:
                    try: g._calc_chi2_gradient_hessian(); us='usable'
                    except Exception as ex: us='unusable:'+type(ex).__name__
                    viol[(kind,tuple(t.__name__ for t in ends),est if est=='arr' else est.__name__, off.__name__ if off else None, dim, us)]+=1
                if cons and acc:
                    assert all(ev is v and ev.id==i for ev,v,i in zip(e.vertices,vs,e.vertex_ids))
                    g._calc_chi2_gradient_hessian()
print('enumerated',n,dict(stats))
for k,v in sorted(viol.items(),key=str): print(' accepted-but-inconsistent',k,v)
