import numpy as np, math, sys, time
import ref, gen
from gen import *
seed=int(sys.argv[1]); rng=np.random.default_rng(seed)
# C11 chain drift
t0=time.time()
p=PoseSE3([0,0,0],[0,0,0,1]); mx=0
for i in range(10000):
    q=mkpose('se3',rand_pose(rng,'se3',1.0))
    op=rng.integers(0,4)
    if op==0: p=p+q
    elif op==1: p=p-q
    elif op==2: p=p.inverse
    else:
        d=rng.normal(size=6)*0.2; p=p+d
    mx=max(mx,abs(np.linalg.norm(p[3:])-1))
print('SE3 chain 1e4: max | |q|-1 | =',mx,' time',time.time()-t0)
p=PoseSE2([0,0],0); lo,hi=9,-9
for i in range(10000):
    q=PoseSE2(rng.normal(size=2),float(rng.normal()*10**rng.uniform(0,6)))
    op=rng.integers(0,4)
    if op==0: p=p+q
    elif op==1: p=p-q
    elif op==2: p=p.inverse
    else: p=p+rng.normal(size=3)
    lo=min(lo,p[2]);hi=max(hi,p[2])
    assert -math.pi<=p[2]<=math.pi
print('SE2 chain angle range',lo,hi)
# angle in range for extremes
vals=[math.pi,-math.pi,np.nextafter(math.pi,4),np.nextafter(-math.pi,-4),1e6,-1e6,3*math.pi,-3*math.pi,1e15,-1e-17-math.pi, 2*math.pi, -2*math.pi]
for v in vals:
    a=PoseSE2([0,0],v)[2]; print(v,a,-math.pi<=a<=math.pi, math.remainder(v-a,2*math.pi))
# normalize
q=PoseSE3([1,2,3],[0.1,-0.2,0.3,-0.0]); q.normalize(); print(q, np.linalg.norm(q[3:]))
q=PoseSE3([1,2,3],[1e-160,-2e-160,0,-1e-160]); q.normalize(); print(q, np.linalg.norm(q[3:]))
q=PoseSE3([1,2,3],[1e-200,-2e-200,0,-1e-200]); 
with np.errstate(all='ignore'): q.normalize(); print(q, np.linalg.norm(q[3:]))
