import numpy as np, math, sys, copy, random
import ref, gen
from gen import *
seed=int(sys.argv[1]); rng=np.random.default_rng(seed)
def poses(g): return {v.id:list(map(float,v.pose)) for v in g._vertices}
def pdiff(k,a,b):
    if k in('r2','r3'): return max(abs(x-y) for x,y in zip(a,b))
    c=[ref.val(x) for x in ref.compact(k,ref.ominus(k,a,b))]; return max(abs(x) for x in c)
def kindof(l): return {2:'r2',3:None}.get(len(l))
for k in ['r2','se2','se3']:
    wperm=wrel=w2pi=wsplit=wscale=0
    for t in range(40):
        n=int(rng.integers(3,12))
        spec=make_graph(rng,k,n,int(rng.integers(0,5)),int(rng.integers(0,3)),0.03,0.01,0.15,0.08,cond=float(10**rng.uniform(0,3)),cross=False)
        g0=build(spec); c0=g0.calc_chi2(); quiet_opt(g0,tol=0,max_iter=3,fix_first_pose=False) ; # fixed vertex 0 via build
        P0={v.id:(kind(v.pose),list(map(float,v.pose))) for v in g0._vertices}
        chi,H,b,idx,free=ref_system(g0); cond=np.linalg.cond(H[np.ix_(free,free)])
        # permutation of vertices and edges
        g=build(spec); vs=g._vertices[:]; es=g._edges[:]
        perm=rng.permutation(len(vs)); vs=[vs[i] for i in perm]; es=[es[i] for i in rng.permutation(len(es))]
        g1=Graph(es,vs); c1=g1.calc_chi2(); quiet_opt(g1,tol=0,max_iter=3,fix_first_pose=False)
        d=max(pdiff(P0[v.id][0],list(map(float,v.pose)),P0[v.id][1]) for v in g1._vertices)
        wperm=max(wperm,d/(2.2e-16*cond), abs(c1-c0)/max(c0,1e-300)/2.2e-16/100)
        # relabel ids
        g=build(spec); ids=[v.id for v in g._vertices]; new={i:int(rng.integers(-2**62,2**62)) for i in ids}
        for v in g._vertices: v.id=new[v.id]
        for e in g._edges: e.vertex_ids=[new[i] for i in e.vertex_ids]
        g2=Graph(g._edges,g._vertices); c2=g2.calc_chi2(); quiet_opt(g2,tol=0,max_iter=3,fix_first_pose=False)
        inv={v:k_ for k_,v in new.items()}
        d=max(pdiff(P0[inv[v.id]][0],list(map(float,v.pose)),P0[inv[v.id]][1]) for v in g2._vertices)
        wrel=max(wrel,d/(2.2e-16*cond), abs(c2-c0))
        # 2pi shifts
        if k=='se2':
            s=copy.deepcopy(spec)
            for p in s['init']: p[2]+=2*math.pi*int(rng.integers(-3,4))
            s['edges']=[ (e[0],e[1],e[2],[e[3][0],e[3][1],e[3][2]+2*math.pi*int(rng.integers(-3,4))] if e[0]=='odo' else e[3],)+tuple(e[4:]) for e in s['edges']]
            g3=build(s); c3=g3.calc_chi2(); quiet_opt(g3,tol=0,max_iter=3,fix_first_pose=False)
            d=max(pdiff(P0[v.id][0],list(map(float,v.pose)),P0[v.id][1]) for v in g3._vertices)
            w2pi=max(w2pi,d/(2.2e-16*cond), abs(c3-c0)/max(c0,1e-300)/2.2e-16/100)
        # edge split + scaling
        s=copy.deepcopy(spec); ne=[]
        for e in s['edges']:
            e=list(e); e[4]=e[4]*0.5; ne.append(tuple(e)); ne.append(tuple(e))
        s['edges']=ne; g4=build(s); c4=g4.calc_chi2(); quiet_opt(g4,tol=0,max_iter=3,fix_first_pose=False)
        d=max(pdiff(P0[v.id][0],list(map(float,v.pose)),P0[v.id][1]) for v in g4._vertices)
        wsplit=max(wsplit,d/(2.2e-16*cond), abs(c4-c0)/max(c0,1e-300)/2.2e-16/100)
        s=copy.deepcopy(spec); c=float(10**rng.uniform(-6,6)); s['edges']=[tuple(list(e[:4])+[e[4]*c]+list(e[5:])) for e in s['edges']]
        g5=build(s); c5=g5.calc_chi2(); quiet_opt(g5,tol=0,max_iter=3,fix_first_pose=False)
        d=max(pdiff(P0[v.id][0],list(map(float,v.pose)),P0[v.id][1]) for v in g5._vertices)
        wscale=max(wscale,d/(2.2e-16*cond), abs(c5/c-c0)/max(c0,1e-300)/2.2e-16/100)
    print(k,'perm',wperm,'relabel',wrel,'2pi',w2pi,'split',wsplit,'scale',wscale)
