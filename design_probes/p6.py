import numpy as np, math, sys
import ref, gen
from gen import *
seed=int(sys.argv[1]); k=sys.argv[2]; init_t=float(sys.argv[3]); init_r=float(sys.argv[4]); meas_t=float(sys.argv[5]); meas_r=float(sys.argv[6]); N=int(sys.argv[7])
rng=np.random.default_rng(seed)
bad=0; stats=[]; nconv=0
for t in range(N):
    tol=float(10**rng.uniform(-10,-3))
    n=int(rng.integers(3,41))
    spec=make_graph(rng,k,n,int(rng.integers(0,max(1,n//2))),int(rng.integers(0,4)),meas_t,meas_r,init_t,init_r,cond=float(10**rng.uniform(0,3)))
    g=build(spec)
    chi0=g.calc_chi2()
    r=quiet_opt(g,tol=tol,max_iter=50)
    chi,H,b,idx,free=ref_system(g)
    Hf=H[np.ix_(free,free)]; bf=b[free]
    try:
        lam2=float(bf@np.linalg.solve(Hf,bf))
    except Exception: lam2=float('nan')
    ok = np.isfinite(r.final_chi2) and r.final_chi2<=chi0*(1+1e-9)+1e-20
    # noise-free => truth recovered
    rec=None
    if meas_t==0 and meas_r==0:
        rec=0
        for e in g._edges:
            er=np.abs(e.calc_error()).max(); rec=max(rec,er)
    stats.append((lam2/(tol*max(r.final_chi2,1e-300)), lam2, r.final_chi2, chi0, r.converged, r.num_iterations, rec, tol))
    nconv+=r.converged
    if not ok: bad+=1
st=np.array([[s[0],s[1],s[2],s[3]] for s in stats])
print(k,'init',init_t,init_r,'meas',meas_t,meas_r,'N',N,'chi increased/nan:',bad,'converged',nconv,'max lam2/(tol*chi)',np.nanmax(st[:,0]),'max lam2',np.nanmax(st[:,1]),'max iters',max(s[5] for s in stats), 'max rec', max((s[6] or 0) for s in stats))
worst=sorted(stats,key=lambda s:-s[0] if np.isfinite(s[0]) else -1e99)[:3]
for w in worst: print('   ',w)
