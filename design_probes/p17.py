# feasibility: intercept graphslam.graph.spsolve from the harness; reach counters via sys.monitoring
import sys, numpy as np, warnings
import graphslam.graph as gg
import gen, ref
from gen import *
calls=[]
orig=gg.spsolve
def spy(A,b,*a,**k):
    x=orig(A,b,*a,**k); calls.append((A.toarray().copy(),np.array(b),np.array(x))); return x
gg.spsolve=spy
# line reach via sys.monitoring, disabling each location after first hit
mon=sys.monitoring; TID=mon.COVERAGE_ID; mon.use_tool_id(TID,"vf")
hits=set()
def line_cb(code,line):
    if 'graphslam' in code.co_filename: hits.add((code.co_filename.split('graphslam/')[-1],line))
    return mon.DISABLE
mon.register_callback(TID,mon.events.LINE,line_cb); mon.set_events(TID,mon.events.LINE)
rng=np.random.default_rng(0)
spec=make_graph(rng,'se3',8,3,2,0.03,0.01,0.15,0.08)
g=build(spec); quiet_opt(g,tol=1e-9,max_iter=10)
mon.set_events(TID,0)
print('spsolve calls',len(calls))
A,b,x=calls[0]; print('H symmetric',np.allclose(A,A.T),'fixed block identity',np.allclose(A[:6,:6],np.eye(6)),'b fixed zero',np.all(b[:6]==0),'x fixed',x[:6])
chi,H,bb,idx,free=ref_system(build(spec))
print('max|H-Href| on free block',np.abs(A[np.ix_(free,free)]-H[np.ix_(free,free)]).max(),'max|b+bref|',np.abs(b[free]+bb[free]).max())
print('lines hit in graph.py',sorted(l for f,l in hits if f=='graph.py')[:80])
print('transpose branch line 283 hit:',('graph.py',283) in hits)
