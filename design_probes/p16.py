import numpy as np, math, sys, copy
import ref, gen
from gen import *
from graphslam.edge.base_edge import BaseEdge
seed=int(sys.argv[1]); rng=np.random.default_rng(seed)
# C16: twin graphs: range edges pose->landmark + odometry; numeric vs AD jacobians
PD={'se2':2,'se3':3,'r2':2,'r3':3}
class RangeNum(BaseEdge):
    def is_valid(self): return self._is_valid()
    def calc_error(self):
        p,l=self.vertices[0].pose,self.vertices[1].pose
        return np.array([np.linalg.norm((p.inverse+l).to_array())-self.estimate])
class RangeAD(RangeNum):
    def calc_jacobians(self):
        p,l=self.vertices[0].pose,self.vertices[1].pose; k,kp=kind(p),kind(l)
        a,b=list(map(float,p)),list(map(float,l)); r=float(self.estimate)
        f0=lambda d:[ref.sqrt(sum(x*x for x in ref.act(k,ref.inv(k,ref.box(k,a,d)),b)))-r]
        f1=lambda d:[ref.sqrt(sum(x*x for x in ref.act(k,ref.inv(k,a),ref.box(kp,b,d))))-r]
        return [ref.jac(f0,ref.CD[k])[1],ref.jac(f1,ref.CD[kp])[1]]
def pdiff(k,a,b):
    if k in('r2','r3'): return max(abs(x-y) for x,y in zip(a,b))
    c=[ref.val(x) for x in ref.compact(k,ref.ominus(k,a,b))]; return max(abs(x) for x in c)
for k in ['se2','se3']:
    kp={'se2':'r2','se3':'r3'}[k]; worst=0; wchi=0
    for t in range(40):
        n=int(rng.integers(4,12))
        spec=make_graph(rng,k,n,int(rng.integers(1,4)),0,0.03,0.01,0.1,0.05,cond=10.)
        nl=int(rng.integers(2,5)); L=[list(rng.normal(size=PD[k])*5) for _ in range(nl)]
        res=[]
        for cls in (RangeNum,RangeAD):
            r2=np.random.default_rng(1000+t)
            g=build(spec); vs=g._vertices[:]; es=g._edges[:]
            for m,l in enumerate(L):
                vs.append(Vertex(100+m,mkpose(kp,[x+r2.normal()*0.1 for x in l])))
                for i in range(n):
                    tr=spec['truth'][i]; rr=math.sqrt(sum(ref.val(x)**2 for x in ref.act(k,ref.inv(k,tr),l)))+r2.normal()*0.02
                    es.append(cls([i,100+m],np.array([[4.0]]),rr))
            g=Graph(es,vs); r=quiet_opt(g,tol=1e-12,max_iter=50)
            res.append((g,r))
        (g1,r1),(g2,r2_)=res
        d=max(pdiff(kind(v.pose),list(map(float,v.pose)),list(map(float,w.pose))) for v,w in zip(g1._vertices,g2._vertices))
        worst=max(worst,d); wchi=max(wchi,abs(r1.final_chi2-r2_.final_chi2)/max(r2_.final_chi2,1e-30))
    print('C16 twin',k,'max pose diff',worst,'max rel chi diff',wchi)
# C11 optimizer drift
for it in [50]:
    mx=0
    for t in range(20):
        spec=make_graph(rng,'se3',int(rng.integers(3,20)),3,2,0.03,0.01,0.15,0.08)
        g=build(spec); quiet_opt(g,tol=0,max_iter=it)
        mx=max(mx,max(abs(np.linalg.norm(v.pose[3:])-1) for v in g._vertices if len(v.pose)==7))
    print('C11 drift after',it,'iters',mx)
