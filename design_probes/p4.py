import numpy as np, math
import ref
from graphslam.vertex import Vertex
from graphslam.edge.edge_odometry import EdgeOdometry
from graphslam.edge.edge_landmark import EdgeLandmark
from graphslam.pose.r2 import PoseR2
from graphslam.pose.r3 import PoseR3
from graphslam.pose.se2 import PoseSE2
from graphslam.pose.se3 import PoseSE3
rng=np.random.default_rng(2)
def rq():
    q=rng.normal(size=4); return q/np.linalg.norm(q)
def mk(k,scale=1.0):
    if k=='r2': return PoseR2(rng.normal(size=2)*scale)
    if k=='r3': return PoseR3(rng.normal(size=3)*scale)
    if k=='se2': return PoseSE2(rng.normal(size=2)*scale, rng.uniform(-10,10))
    return PoseSE3(rng.normal(size=3)*scale, rq())
worst={}
for k in ['r2','r3','se2','se3']:
  for scale in [1.0,1e3,1e6]:
    w=0; we=0
    for it in range(300):
        p1,p2,z=mk(k,scale),mk(k,scale),mk(k,scale)
        e=EdgeOdometry([0,1],np.eye(ref.CD[k]),z,[Vertex(0,p1),Vertex(1,p2)])
        err=e.calc_error(); J=e.calc_jacobians()
        l1,l2,lz=list(map(float,p1)),list(map(float,p2)),list(map(float,z))
        e0,J0=ref.jac(lambda d: ref.odo_err(k,ref.box(k,l1,d),l2,lz), ref.CD[k])
        e1,J1=ref.jac(lambda d: ref.odo_err(k,l1,ref.box(k,l2,d),lz), ref.CD[k])
        de=err-e0
        if k=='se2': de[2]=(de[2]+math.pi)%(2*math.pi)-math.pi
        we=max(we,np.abs(de).max()/scale)
        w=max(w,np.abs(J[0]-J0).max()/scale,np.abs(J[1]-J1).max()/scale)
    print('odo',k,scale,'err diff/scale',we,'jac diff/scale',w)
for k,kp in [('se2','r2'),('se3','r3'),('r2','r2'),('r3','r3')]:
  for scale in [1.0,1e3]:
    w=0;we=0
    for it in range(300):
        p1,l,z,off=mk(k,scale),mk(kp,scale),mk(kp,scale),mk(k,scale)
        e=EdgeLandmark([0,1],np.eye(ref.CD[kp]),z,off,0,[Vertex(0,p1),Vertex(1,l)])
        err=e.calc_error(); J=e.calc_jacobians()
        l1,ll,lz,lo=[list(map(float,x)) for x in (p1,l,z,off)]
        e0,J0=ref.jac(lambda d: ref.lm_err(k,ref.box(k,l1,d),ll,lz,lo), ref.CD[k])
        e1,J1=ref.jac(lambda d: ref.lm_err(k,l1,ref.box(kp,ll,d),lz,lo), ref.CD[kp])
        we=max(we,np.abs(err-e0).max()/scale)
        w=max(w,np.abs(J[0]-J0).max()/scale,np.abs(J[1]-J1).max()/scale)
    print('lm',k,scale,'err diff/scale',we,'jac diff/scale',w)
