import numpy as np, math, sys, copy, io, contextlib
import ref, gen
from gen import *
seed=int(sys.argv[1]); rng=np.random.default_rng(seed)
def state(g): return b''.join(v.pose.tobytes() for v in g._vertices)
bad=0; n_early=0; n_max=0; n_div=0
for t in range(150):
    k=['r2','se2','se3'][t%3]
    big=rng.random()<0.3
    spec=make_graph(rng,k,int(rng.integers(3,10)),int(rng.integers(0,4)),int(rng.integers(0,3)),0.03,0.01,(2.0 if big else 0.15),(1.5 if big else 0.08),cond=100.)
    tol=[0,1e-12,1e-8,1e-4,1e-2,1e-1][int(rng.integers(0,6))]; mi=int(rng.integers(1,12))
    # trajectory by splitting
    g=build(spec); traj=[state(g)]; chis=[g.calc_chi2()]
    for i in range(mi):
        quiet_opt(g,tol=0,max_iter=1); traj.append(state(g)); chis.append(g.calc_chi2())
    # model of stopping rule
    stop=None
    for i in range(1,mi+1):
        if chis[i]<=chis[i-1] and (chis[i-1]-chis[i])/(chis[i-1]+np.finfo(float).eps)<tol:
            stop=i;break
    if stop is not None and stop<mi: exp=dict(conv=True,n=stop,L=stop+1,state=traj[stop],final=chis[stop])
    else:
        c=chis[mi]<=chis[mi-1] and (chis[mi-1]-chis[mi])/(chis[mi-1]+np.finfo(float).eps)<tol
        exp=dict(conv=bool(c),n=mi,L=mi,state=traj[mi],final=chis[mi])
    g2=build(spec)
    buf=io.StringIO()
    verbose=bool(rng.integers(0,2))
    with warnings.catch_warnings(), contextlib.redirect_stdout(buf):
        warnings.simplefilter('ignore'); r=g2.optimize(tol=tol,max_iter=mi,verbose=verbose)
    ok = (r.converged==exp['conv'] and r.num_iterations==exp['n'] and len(r.iteration_results)==exp['L'] and state(g2)==exp['state'] and (r.final_chi2==exp['final'] or (np.isnan(r.final_chi2) and np.isnan(exp['final']))) and r.initial_chi2==chis[0])
    itchis=[it.chi2 for it in r.iteration_results]
    ok2= all((a==b) or (a is None and j>=exp['n']) or (np.isnan(a) and np.isnan(b)) for j,(a,b) in enumerate(zip(itchis,chis[1:])))
    fin=g2.calc_chi2()
    ok3 = (fin==r.final_chi2) or (np.isnan(fin) and np.isnan(r.final_chi2))
    if exp['conv'] and exp['n']<mi: n_early+=1
    else: n_max+=1
    if not np.isfinite(chis[-1]) or chis[-1]>chis[0]: n_div+=1
    if not (ok and ok2 and ok3):
        bad+=1; print('MISMATCH',k,tol,mi,exp['conv'],exp['n'],exp['L'],'got',r.converged,r.num_iterations,len(r.iteration_results),state(g2)==exp['state'],r.final_chi2,exp['final'],itchis,chis)
print('cases',150,'bad',bad,'early',n_early,'max',n_max,'diverging',n_div)
