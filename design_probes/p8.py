import numpy as np, math, sys
import ref, gen
from gen import *
seed=int(sys.argv[1]); rng=np.random.default_rng(seed)
def transform_spec(spec,T):
    k,kp=spec['k'],spec['kp']
    s=dict(spec); s['init']=[[ref.val(x) for x in ref.oplus(k,T,p)] for p in spec['init']]
    s['linit']=[[ref.val(x) for x in ref.act(k,T,p)] for p in spec['linit']]
    return s
def poses(g): return [list(map(float,v.pose)) for v in g._vertices]
def posediff(k,a,b):
    # physical distance between pose a and b (lists)
    if k in('r2','r3'): return max(abs(x-y) for x,y in zip(a,b))
    rel=ref.ominus(k,a,b)
    c=[ref.val(x) for x in ref.compact(k,rel)]
    return max(abs(x) for x in c)
for k in ['r2','r3','se2','se3']:
    worst_chi=0; worst_traj=0; worst_norm=0
    for t in range(60):
        n=int(rng.integers(3,15))
        spec=make_graph(rng,k,n,int(rng.integers(0,5)),int(rng.integers(0,3)),0.03,0.01,0.15,0.08,cond=float(10**rng.uniform(0,3)))
        tscale=float(10**rng.uniform(0,4))
        T=rand_pose(rng,k,tscale)
        if k=='se3' and rng.random()<0.3:
            ax=rng.normal(size=3); ax/=np.linalg.norm(ax); a=math.pi-10**rng.uniform(-8,-1); T[3:]=list(ax*math.sin(a/2))+[math.cos(a/2)]
        g=build(spec); gT=build(transform_spec(spec,T))
        c1,c2=g.calc_chi2(),gT.calc_chi2()
        worst_chi=max(worst_chi,abs(c1-c2)/(max(c1,1e-300))/(2.2e-16*max(1,tscale)))
        kk=int(rng.integers(1,6))
        quiet_opt(g,tol=0,max_iter=kk); quiet_opt(gT,tol=0,max_iter=kk)
        chi,H,b,idx,free=ref_system(g); cond=np.linalg.cond(H[np.ix_(free,free)])
        d=0
        for v,vT in zip(g._vertices,gT._vertices):
            kv=kind(v.pose); p=list(map(float,v.pose))
            exp=ref.oplus(k,T,p) if kv==k else ref.act(k,T,p)
            exp=[ref.val(x) for x in exp]
            d=max(d,posediff(kv,list(map(float,vT.pose)),exp))
        worst_traj=max(worst_traj,d); worst_norm=max(worst_norm,d/(2.2e-16*cond*max(1,tscale)))
    print(k,'chi rel diff /(eps*tscale)',worst_chi,'traj diff abs',worst_traj,'normalized by eps*cond*tscale',worst_norm)
