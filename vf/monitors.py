"""Monitor layer: wrappers attached from the harness to the real classes of the package under test.

``Monitor.attach(cls, name, after=..., before=...)`` replaces ``cls.name`` by a wrapper that records
call/return (also when the call raises) and runs the given observers.  While an observer runs,
nested calls into wrapped functions are not observed (re-entrancy guard), so oracles can call the
real code freely.  ``SolverSpy`` replaces the module attribute ``graphslam.graph.spsolve`` (the
boundary repository -> scipy): it records (H, rhs, dx) of every solve and can inject faults.
"""
import functools

import numpy as np

from . import env  # noqa: F401
import graphslam.graph as _graph_mod


class Monitor:
    def __init__(self):
        self._undo = []
        self.busy = False
        self.calls = {}
        self.seq = 0

    def attach(self, owner, name, after=None, before=None, sample=None):
        """owner: class or module; after(self_or_args, result, exc, args, kwargs); sample(callcount)->bool."""
        orig = owner.__dict__[name] if isinstance(owner, type) else getattr(owner, name)
        is_prop = isinstance(orig, property)
        func = orig.fget if is_prop else orig
        if isinstance(func, (classmethod, staticmethod)):
            raise TypeError("wrap the underlying function of class/static methods explicitly")
        key = "%s.%s" % (getattr(owner, "__name__", str(owner)), name)
        self.calls.setdefault(key, 0)
        mon = self

        @functools.wraps(func)
        def wrapper(*args, **kwargs):
            if mon.busy:
                return func(*args, **kwargs)
            mon.calls[key] += 1
            mon.seq += 1
            observe = sample is None or sample(mon.calls[key])
            token = None
            if before is not None and observe:
                mon.busy = True
                try:
                    token = before(args, kwargs)
                finally:
                    mon.busy = False
            result = None
            exc = None
            try:
                result = func(*args, **kwargs)
                return result
            except BaseException as ex:  # observed, then re-raised
                exc = ex
                raise
            finally:
                if after is not None and observe:
                    mon.busy = True
                    try:
                        after(args, kwargs, result, exc, token)
                    finally:
                        mon.busy = False

        new = property(wrapper, orig.fset, orig.fdel, orig.__doc__) if is_prop else wrapper
        setattr(owner, name, new)
        self._undo.append((owner, name, orig))
        return key

    def detach_all(self):
        for owner, name, orig in reversed(self._undo):
            setattr(owner, name, orig)
        self._undo = []

    def __enter__(self):
        return self

    def __exit__(self, *a):
        self.detach_all()


def first_n_then_every(n, k):
    return lambda c: c <= n or c % k == 0


class SolverSpy:
    """Spy / fault injector at graphslam.graph.spsolve."""

    def __init__(self, fault_plan=None, keep=True):
        self.records = []
        self.calls = 0
        self.fault_plan = fault_plan or {}
        self.keep = keep
        self._orig = None

    def __enter__(self):
        self._orig = _graph_mod.spsolve
        spy = self

        def spsolve(A, b, *args, **kwargs):
            spy.calls += 1
            fault = spy.fault_plan.get(spy.calls)
            if fault == "raise":
                raise RuntimeError("injected solver fault")
            dx = spy._orig(A, b, *args, **kwargs)
            if fault == "nan":
                dx = np.full_like(np.asarray(dx, dtype=float), np.nan)
            elif fault == "inf":
                dx = np.full_like(np.asarray(dx, dtype=float), np.inf)
            elif fault == "nan-one":
                dx = np.array(dx, dtype=float)
                dx[len(dx) // 2] = np.nan
            if spy.keep:
                try:
                    Ad = np.asarray(A.todense()) if hasattr(A, "todense") else np.asarray(A)
                except Exception:  # pragma: no cover
                    Ad = None
                spy.records.append((Ad, np.array(b, dtype=float), np.array(dx, dtype=float)))
            return dx

        _graph_mod.spsolve = spsolve
        return self

    def __exit__(self, *a):
        _graph_mod.spsolve = self._orig
