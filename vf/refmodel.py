"""Independent reference model of the mathematics behind python-graphslam.

Written from the definitions (Hamilton products, homogeneous matrices), generic over the
scalar type: plain ``float`` or ``Dual`` (forward-mode automatic differentiation).  Poses
are plain Python lists:

    r2  : [x, y]                 r3  : [x, y, z]
    se2 : [x, y, theta]          se3 : [x, y, z, qx, qy, qz, qw]

Nothing in here imports graphslam.
"""
import math

import numpy as np

EPS = 2.220446049250313e-16
TWO_PI = 2.0 * math.pi
KINDS = ("r2", "r3", "se2", "se3")
CD = {"r2": 2, "r3": 3, "se2": 3, "se3": 6}  # compact (tangent) dimension
FD = {"r2": 2, "r3": 3, "se2": 3, "se3": 7}  # full (storage) dimension
POINT_OF = {"r2": "r2", "r3": "r3", "se2": "r2", "se3": "r3"}  # landmark type observed from a pose type


# --------------------------------------------------------------------------- #
# dual numbers
# --------------------------------------------------------------------------- #
class Dual:
    """value + gradient vector; supports + - * / neg, and sin/cos/sqrt below."""

    __slots__ = ("v", "g")

    def __init__(self, v, g):
        self.v = float(v)
        self.g = g

    def _c(self, o):
        return o if isinstance(o, Dual) else Dual(o, np.zeros_like(self.g))

    def __add__(self, o):
        if isinstance(o, Dual):
            return Dual(self.v + o.v, self.g + o.g)
        return Dual(self.v + o, self.g)

    __radd__ = __add__

    def __sub__(self, o):
        if isinstance(o, Dual):
            return Dual(self.v - o.v, self.g - o.g)
        return Dual(self.v - o, self.g)

    def __rsub__(self, o):
        return Dual(o - self.v, -self.g)

    def __mul__(self, o):
        if isinstance(o, Dual):
            return Dual(self.v * o.v, self.v * o.g + o.v * self.g)
        return Dual(self.v * o, self.g * o)

    __rmul__ = __mul__

    def __truediv__(self, o):
        if isinstance(o, Dual):
            return Dual(self.v / o.v, (self.g * o.v - self.v * o.g) / (o.v * o.v))
        return Dual(self.v / o, self.g / o)

    def __rtruediv__(self, o):
        return Dual(o / self.v, -o * self.g / (self.v * self.v))

    def __neg__(self):
        return Dual(-self.v, -self.g)


def sin(x):
    return Dual(math.sin(x.v), math.cos(x.v) * x.g) if isinstance(x, Dual) else math.sin(x)


def cos(x):
    return Dual(math.cos(x.v), -math.sin(x.v) * x.g) if isinstance(x, Dual) else math.cos(x)


def sqrt(x):
    if isinstance(x, Dual):
        r = math.sqrt(x.v)
        return Dual(r, x.g / (2.0 * r) if r > 0 else np.zeros_like(x.g))
    return math.sqrt(x)


def val(x):
    return x.v if isinstance(x, Dual) else float(x)


def vals(xs):
    return [val(x) for x in xs]


def wrap(a):
    """Reduce an angle to [-pi, pi] by subtracting an integer multiple of 2*pi (gradient unchanged)."""
    v = val(a)
    k = math.floor((v + math.pi) / TWO_PI)
    r = a - k * TWO_PI
    # guard against rounding pushing just outside
    if val(r) > math.pi:
        r = r - TWO_PI
    elif val(r) < -math.pi:
        r = r + TWO_PI
    return r


def ang_diff(a, b):
    """Smallest absolute difference between two angles modulo 2*pi."""
    d = math.fmod(a - b, TWO_PI)
    if d > math.pi:
        d -= TWO_PI
    elif d < -math.pi:
        d += TWO_PI
    return abs(d)


# --------------------------------------------------------------------------- #
# SE(2)
# --------------------------------------------------------------------------- #
def se2_oplus(a, b):
    c, s = cos(a[2]), sin(a[2])
    return [a[0] + c * b[0] - s * b[1], a[1] + s * b[0] + c * b[1], a[2] + b[2]]


def se2_inv(a):
    c, s = cos(a[2]), sin(a[2])
    return [-(c * a[0] + s * a[1]), -(c * a[1] - s * a[0]), -a[2]]


def se2_act(a, pt):
    c, s = cos(a[2]), sin(a[2])
    return [a[0] + c * pt[0] - s * pt[1], a[1] + s * pt[0] + c * pt[1]]


def se2_matrix(a):
    c, s = cos(a[2]), sin(a[2])
    return [[c, -s, a[0]], [s, c, a[1]], [0.0, 0.0, 1.0]]


# --------------------------------------------------------------------------- #
# quaternions (x, y, z, w), Hamilton convention, written in (w, v) vector form
# --------------------------------------------------------------------------- #
def qmul(a, b):
    ax, ay, az, aw = a
    bx, by, bz, bw = b
    return [
        aw * bx + bw * ax + (ay * bz - az * by),
        aw * by + bw * ay + (az * bx - ax * bz),
        aw * bz + bw * az + (ax * by - ay * bx),
        aw * bw - (ax * bx + ay * by + az * bz),
    ]


def qconj(a):
    return [-a[0], -a[1], -a[2], a[3]]


def qrot(q, v):
    """Rotate v by the unit quaternion q as q v q* (two Hamilton products)."""
    r = qmul(qmul(q, [v[0], v[1], v[2], 0.0]), qconj(q))
    return r[:3]


def se3_oplus(a, b):
    t = qrot(a[3:], b[:3])
    return [a[0] + t[0], a[1] + t[1], a[2] + t[2]] + qmul(a[3:], b[3:])


def se3_inv(a):
    qi = qconj(a[3:])
    t = qrot(qi, a[:3])
    return [-t[0], -t[1], -t[2]] + qi


def se3_act(a, pt):
    t = qrot(a[3:], pt)
    return [a[0] + t[0], a[1] + t[1], a[2] + t[2]]


def se3_box(p, d):
    n2 = d[3] * d[3] + d[4] * d[4] + d[5] * d[5]
    x = 1.0 - n2
    if -1e-14 < val(x) < 0.0:
        x = x * 0.0  # |v| = 1 up to rounding of the sum of squares: a half turn
    w = sqrt(x)
    return se3_oplus(p, [d[0], d[1], d[2], d[3], d[4], d[5], w])


def quat_to_R(q):
    """Rotation matrix of a unit quaternion through qrot on the basis vectors."""
    cols = [qrot(q, e) for e in ([1.0, 0.0, 0.0], [0.0, 1.0, 0.0], [0.0, 0.0, 1.0])]
    return [[cols[j][i] for j in range(3)] for i in range(3)]


def se3_matrix(a):
    R = quat_to_R(a[3:])
    return [R[0] + [a[0]], R[1] + [a[1]], R[2] + [a[2]], [0.0, 0.0, 0.0, 1.0]]


# --------------------------------------------------------------------------- #
# generic dispatch on the kind string
# --------------------------------------------------------------------------- #
def identity(k):
    return {"r2": [0.0, 0.0], "r3": [0.0, 0.0, 0.0], "se2": [0.0, 0.0, 0.0], "se3": [0.0, 0.0, 0.0, 0.0, 0.0, 0.0, 1.0]}[k]


def oplus(k, a, b):
    if k in ("r2", "r3"):
        return [x + y for x, y in zip(a, b)]
    return se2_oplus(a, b) if k == "se2" else se3_oplus(a, b)


def inv(k, a):
    if k in ("r2", "r3"):
        return [-x for x in a]
    return se2_inv(a) if k == "se2" else se3_inv(a)


def ominus_via_inverse(k, a, b):
    """a (-) b := b^-1 (+) a, literally"""
    return oplus(k, inv(k, b), a)


def ominus(k, a, b):
    """a (-) b = b^-1 (+) a, evaluated as R_b^T (t_a - t_b) (difference first: no cancellation between two large absolute positions, so the
    reference stays accurate to eps x separation however far from the origin the poses are)."""
    if k in ("r2", "r3"):
        return [x - y for x, y in zip(a, b)]
    if k == "se2":
        c, s = cos(b[2]), sin(b[2])
        dx, dy = a[0] - b[0], a[1] - b[1]
        return [c * dx + s * dy, c * dy - s * dx, a[2] - b[2]]
    qi = qconj(b[3:])
    t = qrot(qi, [a[0] - b[0], a[1] - b[1], a[2] - b[2]])
    return [t[0], t[1], t[2]] + qmul(qi, a[3:])


def box(k, p, d):
    if k in ("r2", "r3"):
        return [x + y for x, y in zip(p, d)]
    return se2_oplus(p, d) if k == "se2" else se3_box(p, d)


def act(k, a, pt):
    if k in ("r2", "r3"):
        return [x + y for x, y in zip(a, pt)]
    return se2_act(a, pt) if k == "se2" else se3_act(a, pt)


def compact(k, a):
    if k == "se2":
        return [a[0], a[1], wrap(a[2])]
    if k == "se3":
        return list(a[:6])
    return list(a)


def from_compact(k, d):
    """The pose whose compact form is d (|d_rot| <= 1 for se3)."""
    if k == "se3":
        n2 = d[3] * d[3] + d[4] * d[4] + d[5] * d[5]
        x = 1.0 - n2
        if -1e-14 < val(x) < 0.0:
            x = x * 0.0
        return list(d) + [sqrt(x)]
    return list(d)


def matrix(k, a):
    if k == "se2":
        return se2_matrix(a)
    if k == "se3":
        return se3_matrix(a)
    n = len(a)
    M = [[1.0 if i == j else 0.0 for j in range(n + 1)] for i in range(n + 1)]
    for i in range(n):
        M[i][n] = a[i]
    return M


def tmag(k, a):
    """Magnitude of the translation part."""
    n = {"r2": 2, "r3": 3, "se2": 2, "se3": 3}[k]
    return max(abs(val(x)) for x in a[:n])


# --------------------------------------------------------------------------- #
# measurement model
# --------------------------------------------------------------------------- #
def odo_err_full(k, p1, p2, z):
    """Full (non-compact) error pose z (-) (p2 (-) p1)."""
    return ominus(k, z, ominus(k, p2, p1))


def odo_err(k, p1, p2, z):
    return compact(k, odo_err_full(k, p1, p2, z))


def lm_err(k, p1, l, z, off):
    """((p1 (+) off)^-1 applied to the landmark l) - z ; k is the kind of p1."""
    pt = act(k, inv(k, oplus(k, p1, off)), l)
    return [a - b for a, b in zip(pt, z)]


def jac(f, n):
    """f maps a list of n Duals (the boxplus increment) to a list of scalars.
    Returns (value, jacobian) at increment 0."""
    eye = np.eye(n)
    d = [Dual(0.0, eye[i]) for i in range(n)]
    out = f(d)
    value = np.array([val(o) for o in out])
    J = np.array([(o.g if isinstance(o, Dual) else np.zeros(n)) for o in out], dtype=float).reshape(len(out), n)
    return value, J


def jac_ambient(f, x):
    """Derivative of f (list -> list) w.r.t. every component of the list x (ambient coordinates)."""
    n = len(x)
    eye = np.eye(n)
    d = [Dual(float(x[i]), eye[i]) for i in range(n)]
    out = f(d)
    value = np.array([val(o) for o in out])
    J = np.array([(o.g if isinstance(o, Dual) else np.zeros(n)) for o in out], dtype=float).reshape(len(out), n)
    return value, J


def richardson_jac(f, n, h=1e-3):
    """Richardson-extrapolated central difference of a float function of an n-vector at 0 (O(h^4))."""

    def cd(hh):
        cols = []
        for i in range(n):
            dp = [0.0] * n
            dm = [0.0] * n
            dp[i] = hh
            dm[i] = -hh
            fp = np.array(vals(f(dp)))
            fm = np.array(vals(f(dm)))
            cols.append((fp - fm) / (2 * hh))
        return np.array(cols).T

    return (4.0 * cd(h / 2) - cd(h)) / 3.0


# --------------------------------------------------------------------------- #
# .g2o tokenizer (independent of the repository's parsers)
# --------------------------------------------------------------------------- #
def tri_to_full(tokens, n):
    """Expand an upper-triangular row-major list to a symmetric n x n list of lists (explicit loops)."""
    assert len(tokens) == n * (n + 1) // 2
    M = [[0.0] * n for _ in range(n)]
    t = 0
    for i in range(n):
        for j in range(i, n):
            M[i][j] = tokens[t]
            M[j][i] = tokens[t]
            t += 1
    return M


G2O_VERTEX = {"VERTEX_XY": ("r2", 2), "VERTEX_TRACKXYZ": ("r3", 3), "VERTEX_SE2": ("se2", 3), "VERTEX_SE3:QUAT": ("se3", 7)}
G2O_EDGE = {
    "EDGE_SE2": ("odo", "se2", 3, 3),
    "EDGE_SE3:QUAT": ("odo", "se3", 7, 6),
    "EDGE_SE2_XY": ("lm", "se2", 2, 2),
    "EDGE_SE3_TRACKXYZ": ("lm", "se3", 3, 3),
}
G2O_PARAM = {"PARAMS_SE2OFFSET": ("se2", 3), "PARAMS_SE3OFFSET": ("se3", 7)}


def parse_g2o_line(line):
    """Tokenise one line the way the format documents it.

    Returns None for blank lines, ('junk', text) for unsupported lines, or a record dict.
    A supported line starts (at column 0) with TAG followed by one space character.
    """
    if not line.strip():
        return None
    head = line.split(" ", 1)[0]
    if " " not in line:
        return ("junk", line.rstrip())
    toks = line[len(head) + 1:].split()
    try:
        if head in G2O_VERTEX:
            k, n = G2O_VERTEX[head]
            return {"what": "vertex", "kind": k, "id": int(toks[0]), "pose": [float(t) for t in toks[1:1 + n]], "ntok": len(toks)}
        if head in G2O_EDGE:
            typ, k, nest, ninf = G2O_EDGE[head]
            ids = [int(toks[0]), int(toks[1])]
            rest = toks[2:]
            rec = {"what": "edge", "type": typ, "kind": k, "ids": ids}
            if head == "EDGE_SE3_TRACKXYZ":
                rec["off_id"] = int(rest[0])
                rest = rest[1:]
            nums = [float(t) for t in rest]
            rec["est"] = nums[:nest]
            rec["info"] = tri_to_full(nums[nest:], ninf)
            return rec
        if head in G2O_PARAM:
            k, n = G2O_PARAM[head]
            return {"what": "param", "tag": head, "kind": k, "id": int(toks[0]), "value": [float(t) for t in toks[1:1 + n]]}
    except (ValueError, IndexError, AssertionError):
        return ("malformed", line.rstrip())
    return ("junk", line.rstrip())
