"""Custom edge types defined in the harness (the "programs" of C03/C16, custom lines of C14).

Every class implements ``calc_error`` with the *real* public pose operators and ``ref_error`` with the
reference model.  ``numeric=True`` instances inherit BaseEdge's numerical Jacobians; ``numeric=False``
instances ("AD twins") return the AD derivative of the reference error.
"""
import numpy as np

from . import env  # noqa: F401
from . import refmodel as R
from graphslam.edge.base_edge import BaseEdge
from graphslam.pose.base_pose import BasePose

NT = {"r2": 2, "r3": 3, "se2": 2, "se3": 3}


class _Custom(BaseEdge):
    NAME = None
    rot_rows = ()
    angle_rows = ()

    def __init__(self, vertex_ids, information, estimate, vertices=None, numeric=True):
        super().__init__(vertex_ids, information, estimate, vertices)
        self.numeric = numeric

    def is_valid(self):
        return self._is_valid()

    def calc_jacobians(self):
        if self.numeric:
            return BaseEdge.calc_jacobians(self)
        from . import model

        _, Js = model.edge_ref_jacobians(self)
        err = np.atleast_1d(np.asarray(self.calc_error(), dtype=float))
        s = model.sigma_vector(self, err, model.edge_ref_error(self))
        return [J * s[:, None] for J in Js]

    def _z(self):
        return [float(x) for x in np.atleast_1d(np.asarray(self.estimate, dtype=float))]


class PriorEdge(_Custom):
    """unary: compact(p (-) z); z is a pose of the same type."""

    NAME = "prior"

    @property
    def rot_rows(self):
        from . import model

        return [3, 4, 5] if model.kind(self.vertices[0].pose) == "se3" else []

    @property
    def angle_rows(self):
        from . import model

        return [2] if model.kind(self.vertices[0].pose) == "se2" else []

    def calc_error(self):
        return (self.vertices[0].pose - self.estimate).to_compact()

    def ref_error(self, ks, P):
        return R.compact(ks[0], R.ominus(ks[0], P[0], self._z()))


class PositionPriorEdge(_Custom):
    """unary: position(p) - z (z an ndarray)."""

    NAME = "posprior"

    def calc_error(self):
        return self.vertices[0].pose.position - self.estimate

    def ref_error(self, ks, P):
        z = self._z()
        return [P[0][i] - z[i] for i in range(NT[ks[0]])]


class DistanceEdge(_Custom):
    """binary: ||pos1 - pos2|| - d ; scalar-array estimate; any two pose types of equal spatial dimension."""

    NAME = "distance"

    def calc_error(self):
        return np.array([np.linalg.norm(self.vertices[0].pose.position - self.vertices[1].pose.position) - self.estimate])

    def ref_error(self, ks, P):
        n = NT[ks[0]]
        s = sum(((P[0][i] - P[1][i]) * (P[0][i] - P[1][i]) for i in range(1, n)), (P[0][0] - P[1][0]) * (P[0][0] - P[1][0]))
        return [R.sqrt(s) - float(self.estimate)]


class RangeEdge(_Custom):
    """binary pose -> landmark: ||p^-1 . l|| - d, through the public inverse / pose (+) point operators."""

    NAME = "range"

    def calc_error(self):
        local = self.vertices[0].pose.inverse + self.vertices[1].pose
        return np.array([np.linalg.norm(local.to_array()) - self.estimate])

    def ref_error(self, ks, P):
        loc = R.act(ks[0], R.inv(ks[0], P[0]), P[1])
        s = sum((x * x for x in loc[1:]), loc[0] * loc[0])
        return [R.sqrt(s) - float(self.estimate)]


class RelPoseEdge(_Custom):
    """binary: the odometry error re-expressed with public operators: compact((p1^-1 (+) p2)^-1 (+) z)... i.e. z (-) (p2 (-) p1)."""

    NAME = "relpose"

    @property
    def rot_rows(self):
        from . import model

        return [3, 4, 5] if model.kind(self.vertices[0].pose) == "se3" else []

    @property
    def angle_rows(self):
        from . import model

        return [2] if model.kind(self.vertices[0].pose) == "se2" else []

    def calc_error(self):
        rel = self.vertices[0].pose.inverse + self.vertices[1].pose
        return (rel.inverse + self.estimate).to_compact()

    def ref_error(self, ks, P):
        return R.odo_err(ks[0], P[0], P[1], self._z())


class MidpointEdge(_Custom):
    """ternary: pos2 - (pos1 + pos3)/2 - z."""

    NAME = "midpoint"

    def calc_error(self):
        p = [v.pose.position for v in self.vertices]
        return p[1] - 0.5 * (p[0] + p[2]) - self.estimate

    def ref_error(self, ks, P):
        z = self._z()
        return [P[1][i] - 0.5 * (P[0][i] + P[2][i]) - z[i] for i in range(NT[ks[0]])]


class ConstVelEdge(_Custom):
    """ternary, same pose type: compact((p2 (-) p1) (-) (p3 (-) p2)) - z  (z an ndarray of compact size)."""

    NAME = "constvel"

    def calc_error(self):
        a = self.vertices[1].pose - self.vertices[0].pose
        b = self.vertices[2].pose - self.vertices[1].pose
        return (a - b).to_compact() - self.estimate

    def ref_error(self, ks, P):
        k = ks[0]
        a = R.ominus(k, P[1], P[0])
        b = R.ominus(k, P[2], P[1])
        c = R.compact(k, R.ominus(k, a, b))
        z = self._z()
        return [c[i] - z[i] for i in range(len(c))]

    @property
    def rot_rows(self):
        from . import model

        return [3, 4, 5] if model.kind(self.vertices[0].pose) == "se3" else []

    @property
    def angle_rows(self):
        from . import model

        return [2] if model.kind(self.vertices[0].pose) == "se2" else []


class RobustPositionPrior(PositionPriorEdge):
    """A position prior with a user-defined (Huber-like) chi2: calc_chi2 is overridden, as the documentation of BaseEdge allows."""

    NAME = "robustprior"

    def calc_chi2(self):
        q = float(PositionPriorEdge.calc_chi2(self))
        return q if q <= 1.0 else 2.0 * q ** 0.5 - 1.0


class FaultyPositionPrior(PositionPriorEdge):
    """A position prior whose error function raises on its k-th evaluation (fault injected inside an edge, i.e. mid-assembly)."""

    NAME = "faulty"
    fail_at = 10 ** 9
    calls = 0

    def calc_error(self):
        self.calls += 1
        if self.calls >= self.fail_at:
            raise RuntimeError("injected edge fault")
        return PositionPriorEdge.calc_error(self)


TYPES = {c.NAME: c for c in (PriorEdge, PositionPriorEdge, DistanceEdge, RangeEdge, RelPoseEdge, MidpointEdge, ConstVelEdge, FaultyPositionPrior, RobustPositionPrior)}


def make(e, info):
    from . import model

    name = e["type"].split(":", 1)[1]
    cls = TYPES[name]
    ek = e.get("est_kind", "array")
    if ek in R.KINDS:
        est = model.mkpose(ek, e["est"])
    elif ek == "scalar":
        est = float(e["est"][0])
    else:
        est = np.array(e["est"], dtype=np.float64)
    return cls(list(e["ids"]), info, est, numeric=bool(e.get("numeric", True)))


# --------------------------------------------------------------------------- #
# custom edge with .g2o support (C14: registered custom edge types)
# --------------------------------------------------------------------------- #
class TaggedDistanceEdge(DistanceEdge):
    """EDGE_VF_DIST id1 id2 d w  -- used to check that registered custom types claim exactly their own lines."""

    TAG = "EDGE_VF_DIST"

    def to_g2o(self):
        return "{} {} {} {} {}\n".format(self.TAG, self.vertex_ids[0], self.vertex_ids[1], float(self.estimate), float(self.information[0, 0]))

    @classmethod
    def from_g2o(cls, line, g2o_params_or_none=None):
        if line.startswith(cls.TAG + " "):
            t = line[len(cls.TAG) + 1:].split()
            return cls([int(t[0]), int(t[1])], np.array([[float(t[3])]]), float(t[2]))
        return None


def make_dist_variant(name, accept=None):
    """A fresh registered type that parses the EDGE_VF_DIST tag (optionally only the lines whose two ids satisfy `accept`)."""
    def from_g2o(cls, line, g2o_params_or_none=None):
        if line.startswith(cls.TAG + " "):
            t = line[len(cls.TAG) + 1:].split()
            if accept is not None and not accept(int(t[0]), int(t[1])):
                return None
            return cls([int(t[0]), int(t[1])], np.array([[float(t[3])]]), float(t[2]))
        return None
    return type("DistVariant_" + name, (TaggedDistanceEdge,), {"from_g2o": classmethod(from_g2o)})


class TaggedPriorEdge(PositionPriorEdge):
    """EDGE_VF_PRIOR id x y w"""

    TAG = "EDGE_VF_PRIOR"

    def to_g2o(self):
        return "{} {} {} {} {}\n".format(self.TAG, self.vertex_ids[0], float(self.estimate[0]), float(self.estimate[1]), float(self.information[0, 0]))

    @classmethod
    def from_g2o(cls, line, g2o_params_or_none=None):
        if line.startswith(cls.TAG + " "):
            t = line[len(cls.TAG) + 1:].split()
            return cls([int(t[0])], float(t[3]) * np.eye(2), np.array([float(t[1]), float(t[2])]))
        return None


from graphslam.edge.edge_odometry import EdgeOdometry as _EdgeOdometry  # noqa: E402


class OverridingOdometry(_EdgeOdometry):
    """A registered custom type that claims the built-in tag EDGE_SE2 (registered types are consulted before the built-in edge parsers)."""

    @classmethod
    def from_g2o(cls, line, g2o_params_or_none=None):
        if line.startswith("EDGE_SE2 "):
            e = _EdgeOdometry.from_g2o(line, g2o_params_or_none)
            return cls(e.vertex_ids, e.information, e.estimate)
        return None
