"""Oracle self-validation (run as MANIFEST.setup_cmd and importable): the reference model is checked against
three independent routes.  A failure here means the *oracle* is broken: checks must then be inconclusive."""
import math
import sys

import numpy as np

from . import refmodel as R
from . import gen


def run(n=200, seed=12345, verbose=True):
    rng = np.random.default_rng(seed)
    worst = {"ad_vs_richardson": 0.0, "hamilton_vs_matrix": 0.0, "hamilton_vs_scipy": 0.0, "group_axioms": 0.0, "tri_expand": 0.0, "wrap": 0.0}
    try:
        from scipy.spatial.transform import Rotation
    except Exception:  # pragma: no cover
        Rotation = None
    for _ in range(n):
        for k in R.KINDS:
            a = gen.normalize_pose(k, gen.mild_pose(rng, k))
            b = gen.normalize_pose(k, gen.mild_pose(rng, k))
            c = gen.normalize_pose(k, gen.mild_pose(rng, k))
            # matrix homomorphism
            Ma, Mb = np.array(R.matrix(k, a)), np.array(R.matrix(k, b))
            Mab = np.array(R.matrix(k, R.vals(R.oplus(k, a, b))))
            worst["hamilton_vs_matrix"] = max(worst["hamilton_vs_matrix"], float(np.abs(Ma @ Mb - Mab).max()) / (1 + np.abs(Mab).max()))
            d_om = np.abs(np.array(R.vals(R.ominus(k, a, b))) - np.array(R.vals(R.ominus_via_inverse(k, a, b)))).max()
            worst["group_axioms"] = max(worst["group_axioms"], float(d_om) / 50)
            # axioms
            e = R.identity(k)
            ai = R.vals(R.inv(k, a))
            d1 = np.abs(np.array(R.matrix(k, R.vals(R.oplus(k, a, ai)))) - np.array(R.matrix(k, e))).max()
            lhs = np.array(R.matrix(k, R.vals(R.oplus(k, R.vals(R.oplus(k, a, b)), c))))
            rhs = np.array(R.matrix(k, R.vals(R.oplus(k, a, R.vals(R.oplus(k, b, c))))))
            worst["group_axioms"] = max(worst["group_axioms"], float(d1) / 50, float(np.abs(lhs - rhs).max()) / (1 + np.abs(lhs).max()))
            # AD vs Richardson on the odometry error and the landmark error
            z = gen.normalize_pose(k, gen.mild_pose(rng, k))
            f = lambda d: R.odo_err(k, R.box(k, a, d), b, z)  # noqa: E731
            _, J = R.jac(f, R.CD[k])
            Jr = R.richardson_jac(f, R.CD[k], 1e-2)
            er = R.vals(R.odo_err(k, a, b, z))
            if not (k == "se2" and abs(er[2]) > 3.0) and not (k == "se3" and abs(R.val(R.odo_err_full(k, a, b, z)[6])) < 0.1):
                worst["ad_vs_richardson"] = max(worst["ad_vs_richardson"], float(np.abs(J - Jr).max()) / (1 + np.abs(J).max()))
            kp = R.POINT_OF[k]
            l = gen.mild_pose(rng, kp)
            zz = gen.mild_pose(rng, kp)
            f2 = lambda d: R.lm_err(k, R.box(k, a, d), l, zz, b)  # noqa: E731
            _, J2 = R.jac(f2, R.CD[k])
            J2r = R.richardson_jac(f2, R.CD[k], 1e-2)
            worst["ad_vs_richardson"] = max(worst["ad_vs_richardson"], float(np.abs(J2 - J2r).max()) / (1 + np.abs(J2).max()))
            if k == "se3" and Rotation is not None:
                Rs = Rotation.from_quat(a[3:]).as_matrix()
                worst["hamilton_vs_scipy"] = max(worst["hamilton_vs_scipy"], float(np.abs(Rs - np.array(R.quat_to_R(a[3:]))).max()))
    # triangular expansion (exact)
    for nn in (2, 3, 6):
        toks = [float(x) for x in range(1, nn * (nn + 1) // 2 + 1)]
        Mx = np.array(R.tri_to_full(toks, nn))
        ok = np.array_equal(Mx, Mx.T) and list(Mx[np.triu_indices(nn)]) == toks
        worst["tri_expand"] = max(worst["tri_expand"], 0.0 if ok else 1.0)
    for _ in range(2000):
        a, _c = gen.angle(rng)
        w = R.wrap(a)
        bad = not (-math.pi <= w <= math.pi) or abs(math.sin(w) - math.sin(a)) > 1e-9 * max(1, abs(a)) or abs(math.cos(w) - math.cos(a)) > 1e-9 * max(1, abs(a))
        worst["wrap"] = max(worst["wrap"], 1.0 if bad else 0.0)
    limits = {"ad_vs_richardson": 1e-7, "hamilton_vs_matrix": 1e-13, "hamilton_vs_scipy": 1e-13, "group_axioms": 1e-13, "tri_expand": 0.5, "wrap": 0.5}
    ok = all(worst[k] <= limits[k] for k in limits)
    if verbose:
        print("oracle self-validation:", "OK" if ok else "FAILED", {k: float("%.3g" % v) for k, v in worst.items()})
    return ok, worst


if __name__ == "__main__":
    ok, _ = run()
    sys.exit(0 if ok else 1)
