"""Runner: shards a property's workload over the cores, merges what the monitors observed,
classifies violations against known_findings.json, writes evidence, prints the verdict.

usage:  python -m vf.runner <Cxx> [quick|thorough] [--replay FILE] [--cases N] [--shards N]
exit 0 held / 1 violation (VIOLATION line) / 2 inconclusive (no VIOLATION line)
"""
import hashlib
import importlib
import json
import math
import os
import shutil
import subprocess
import sys
import tempfile
import time
import traceback
from collections import Counter

VERIF = os.path.dirname(os.path.dirname(os.path.abspath(__file__)))
PY = sys.executable
NCPU = os.cpu_count() or 4


# --------------------------------------------------------------------------- #
# JSON helpers
# --------------------------------------------------------------------------- #
def jsonable(x):
    import numpy as np

    if isinstance(x, dict):
        return {str(k): jsonable(v) for k, v in x.items()}
    if isinstance(x, (list, tuple, set, frozenset)):
        return [jsonable(v) for v in x]
    if isinstance(x, np.ndarray):
        return jsonable(x.tolist())
    if isinstance(x, (np.floating,)):
        return jsonable(float(x))
    if isinstance(x, (np.integer,)):
        return int(x)
    if isinstance(x, (np.bool_,)):
        return bool(x)
    if isinstance(x, float):
        if math.isnan(x):
            return "nan"
        if math.isinf(x):
            return "inf" if x > 0 else "-inf"
        return x
    if isinstance(x, (int, str, bool)) or x is None:
        return x
    if isinstance(x, bytes):
        return x.hex()
    return repr(x)


class Skip(Exception):
    """Raised by a case to declare itself out of domain (counted as inconclusive with a reason)."""

    def __init__(self, reason):
        super().__init__(reason)
        self.reason = reason


class Ctx:
    """What a shard's monitors observed."""

    MAX_VIOL = 12

    def __init__(self, prop, tier, seed, shard=0, nshards=1):
        self.prop = prop
        self.tier = tier
        self.seed = seed
        self.shard = shard
        self.nshards = nshards
        self.evaluations = 0  # oracle evaluations
        self.cases = 0
        self.counters = Counter()
        self.margins = {}
        self.margin_case = {}
        self.inconclusive = Counter()
        self.violations = []
        self.nviol = 0
        self.samples = []
        self.fps = set()
        self.case_index = None
        self.harness_errors = []
        self._known = [k for k in load_known() if k.get("property") == prop and k.get("status") == "known"]

    # -- recording ------------------------------------------------------- #
    def count(self, name, n=1):
        self.counters[name] += n

    def ev(self, n=1):
        self.evaluations += n

    def margin(self, name, ratio):
        """Record observed/tolerance ratio (max)."""
        try:
            r = float(ratio)
        except (TypeError, ValueError):
            return
        if r != r:
            return
        if r > self.margins.get(name, 0.0):
            self.margins[name] = r
            self.margin_case[name] = self.case_index

    def nontrivial(self, fp):
        self.fps.add(fp if isinstance(fp, str) else hashlib.blake2b(repr(fp).encode(), digest_size=8).hexdigest())

    def sample(self, obj, cap=3):
        if len(self.samples) < cap:
            self.samples.append(jsonable(obj))

    def skip(self, reason):
        self.inconclusive[reason] += 1

    def violation(self, monitor, features=None, detail=None, case=None):
        """Record a violated observation.  features: structural facts used by the known-findings classifier."""
        self.counters["violation:" + monitor] += 1
        self.counters["vfeat:%s %s" % (monitor, json.dumps(jsonable(features or {}), sort_keys=True))] += 1
        probe = jsonable({"property": self.prop, "monitor": monitor, "features": features or {}})
        for k in self._known:
            if matches(k, probe):
                # a listed known finding: count it, keep at most two witnesses, never let it crowd out new ones
                self.counters["known:" + k["id"]] += 1
                if self.counters["known:" + k["id"]] > 2:
                    return
                break
        else:
            self.nviol += 1
        if len(self.violations) < self.MAX_VIOL + 2 * len(self._known):
            self.violations.append(jsonable({
                "property": self.prop, "monitor": monitor, "features": features or {}, "detail": detail or {},
                "case": case, "case_index": self.case_index, "seed": self.seed, "tier": self.tier,
            }))

    def check(self, monitor, ok, features=None, detail=None, case=None):
        self.evaluations += 1
        self.counters["eval:" + monitor] += 1
        if not ok:
            self.violation(monitor, features, detail, case)
        return ok

    def close(self, monitor, observed, expected, tol, features=None, detail=None, case=None):
        """|observed-expected| <= tol elementwise (NaN anywhere = failure)."""
        import numpy as np

        o = np.asarray(observed, dtype=float)
        e = np.asarray(expected, dtype=float)
        if o.shape != e.shape:
            return self.check(monitor, False, features, dict(detail or {}, why="shape", observed_shape=o.shape, expected_shape=e.shape), case)
        with np.errstate(all="ignore"):
            d = np.abs(o - e)
            t = np.broadcast_to(np.asarray(tol, dtype=float), d.shape)
            bad = ~(d <= t)
        if d.size:
            with np.errstate(all="ignore"):
                rr = np.where(t > 0, d / np.where(t > 0, t, 1.0), np.where(d > 0, np.inf, 0.0))
            fin = rr[np.isfinite(rr)]
            if fin.size:
                self.margin(monitor, fin.max())
        ok = not bool(bad.any())
        if not ok:
            det = dict(detail or {})
            det.update(observed=o, expected=e, max_abs_diff=float(np.nanmax(d)) if d.size else 0.0,
                       tol=float(np.max(t)) if d.size else 0.0)
            return self.check(monitor, False, features, det, case)
        return self.check(monitor, True)

    def result(self):
        return {
            "shard": self.shard, "evaluations": self.evaluations, "cases": self.cases, "counters": dict(self.counters),
            "margins": self.margins, "margin_case": self.margin_case, "inconclusive": dict(self.inconclusive), "violations": self.violations,
            "nviol": self.nviol, "samples": self.samples, "fps": sorted(self.fps), "harness_errors": self.harness_errors[:5],
        }


def prop_module(pid):
    return importlib.import_module("vf.props." + pid.lower())


def prop_num(pid):
    return int(pid[1:])


def run_cases(mod, ctx, indices, soft_deadline=None):
    """Run the given global case indices inside this process."""
    from . import gen

    if hasattr(mod, "setup"):
        mod.setup(ctx)
    pinned = list(getattr(mod, "PINNED", []))
    if ctx.tier == "thorough":
        # realistic-data cases (the two shipped datasets) run in the thorough tier like pinned cases
        pinned += list(getattr(mod, "DATASET_CASES", []))
    for i in indices:
        if soft_deadline is not None and time.time() > soft_deadline:
            ctx.count("stopped_by_soft_deadline")
            break
        ctx.case_index = i
        ctx.cases += 1
        try:
            if i < 0:
                # pinned regression inputs (the concrete inputs behind recorded findings), index -1, -2, ...
                pinned[-i - 1](ctx)
            else:
                mod.run_case(ctx, i, gen.case_rng(ctx.seed, prop_num(ctx.prop), 0, i))
        except Skip as s:
            ctx.skip(s.reason)
        except Exception:  # harness error (real-code exceptions are caught where they are expected)
            tb = traceback.format_exc()
            from . import env

            in_repo = False
            for fr in traceback.extract_tb(sys.exc_info()[2])[::-1]:
                fn = os.path.realpath(fr.filename)
                if fn.startswith(env.REPO + os.sep):
                    in_repo = True
                    break
                if fn.startswith(VERIF + os.sep):
                    break
            if in_repo:
                ctx.violation("unexpected-exception", {"exception": type(sys.exc_info()[1]).__name__},
                              {"traceback": tb[-1500:]}, case={"index": i})
            else:
                ctx.harness_errors.append({"case_index": i, "traceback": tb[-2500:]})
    if hasattr(mod, "teardown"):
        mod.teardown(ctx)
    from . import model as _M

    for k, v in _M.ENV_COUNTS.items():
        if v:
            ctx.count(("optimize_calls_with_logging:" + k) if k in ("default", "debug", "disabled") else ("optimize_calls_with:" + k), v)
            _M.ENV_COUNTS[k] = 0
    ctx.case_index = None


def suite_under_monitors(prop, seed, tmp, timeout=1500):
    """Extra stage (thorough tier): run the repository's own test-suite as a workload with the property's monitors attached
    (pytest plugin vf.pytest_plugin, guard GRAPHSLAM_VERIF=1).  Returns a dict mergeable by finish()."""
    repo = os.path.realpath(os.environ.get("VERIF_REPO", "/repo"))
    out = os.path.join(tmp, "suite_%s.json" % prop)
    env = dict(os.environ, GRAPHSLAM_VERIF="1", VF_PLUGIN_PROP=prop, VF_PLUGIN_OUT=out, PYTHONPATH=VERIF + os.pathsep + repo, VERIF_SEED=str(seed),
               OMP_NUM_THREADS="1", OPENBLAS_NUM_THREADS="1", MPLBACKEND="Agg")
    tests = os.path.join(repo, "tests")
    if not os.path.isdir(tests):
        return {"counters": {"suite_under_monitors:tests_directory_missing": 1}}
    try:
        r = subprocess.run([PY, "-m", "pytest", "-q", "-x", "-p", "no:cacheprovider", "-p", "vf.pytest_plugin", "--timeout=1200", tests], cwd=repo, env=env,
                           capture_output=True, text=True, timeout=timeout)
    except subprocess.TimeoutExpired:
        return {"counters": {"suite_under_monitors:watchdog": 1}, "inconclusive": {"repository test-suite under monitors: watchdog": 1}}
    if not os.path.exists(out):
        return {"counters": {"suite_under_monitors:no_output": 1}, "inconclusive": {"repository test-suite under monitors produced no record: %s" % r.stdout[-300:]: 1}}
    with open(out) as f:
        res = json.load(f)
    counters = {"suite:" + k: v for k, v in res["counters"].items() if not k.startswith(("eval:", "violation:", "vfeat:"))}
    counters.update({k: v for k, v in res["counters"].items() if k.startswith(("eval:", "violation:", "vfeat:"))})
    counters["suite_under_monitors:monitored_calls"] = sum(res.get("monitored_calls", {}).values())
    counters["suite_under_monitors:pytest_exitstatus=%d" % res.get("pytest_exitstatus", -1)] = 1
    return {"counters": counters, "violations": res["violations"], "nviol": res["nviol"], "evaluations": res["evaluations"], "margins": res["margins"],
            "inconclusive": {"suite: " + k: v for k, v in res["inconclusive"].items()}, "harness_errors": res["harness_errors"],
            "coverage": {"repository_test_suite_under_monitors": {"oracle_evaluations": res["evaluations"], "monitored_calls": res.get("monitored_calls", {}),
                                                                  "pytest_exitstatus": res.get("pytest_exitstatus")}}}


# --------------------------------------------------------------------------- #
# known findings
# --------------------------------------------------------------------------- #
def load_known():
    p = os.path.join(VERIF, "known_findings.json")
    if not os.path.exists(p):
        return []
    with open(p) as f:
        return json.load(f).get("findings", [])


def matches(entry, viol):
    m = entry.get("match", {})
    if entry.get("property") != viol.get("property"):
        return False
    mon = m.get("monitor")
    if mon is not None:
        mons = mon if isinstance(mon, list) else [mon]
        if viol.get("monitor") not in mons:
            return False
    feats = viol.get("features", {})
    for k, v in m.get("features", {}).items():
        if feats.get(k) != v:
            return False
    return True


# --------------------------------------------------------------------------- #
# main
# --------------------------------------------------------------------------- #
def shard_main(argv):
    pid, tier, seed, shard, nshards, ncases, soft_s, out = argv
    seed, shard, nshards, ncases, soft_s = int(seed), int(shard), int(nshards), int(ncases), float(soft_s)
    os.environ["VERIF_TIER"] = tier
    mod = prop_module(pid)
    ctx = Ctx(pid, tier, seed, shard, nshards)
    npinned = len(getattr(mod, "PINNED", [])) + (len(getattr(mod, "DATASET_CASES", [])) if tier == "thorough" else 0)
    idx = [-(j + 1) for j in range(npinned) if j % nshards == shard]
    idx += list(range(shard, ncases, nshards))
    cov = None
    if os.environ.get("VF_COVERAGE_DIR"):
        # optional (tools/coverage_report.sh): which lines of the library the workloads of this check actually executed
        try:
            import coverage

            from . import env as _env
            cov = coverage.Coverage(data_file=os.path.join(os.environ["VF_COVERAGE_DIR"], ".coverage.%s.%d" % (pid, shard)), include=[os.path.join(_env.REPO, "graphslam", "*")])
            cov.start()
        except Exception:  # noqa: BLE001
            cov = None
    run_cases(mod, ctx, idx, soft_deadline=time.time() + soft_s)
    if cov is not None:
        cov.stop()
        cov.save()
    with open(out, "w") as f:
        json.dump(ctx.result(), f)
    return 0


def write_replay(v):
    d = os.environ.get("VERIF_REPLAY_DIR") or os.path.join(VERIF, "replays")
    os.makedirs(d, exist_ok=True)
    blob = json.dumps(v, sort_keys=True)
    h = hashlib.blake2b(blob.encode(), digest_size=6).hexdigest()
    p = os.path.join(d, "%s-%s.json" % (v.get("property", "C"), h))
    with open(p, "w") as f:
        f.write(json.dumps(v, indent=1, sort_keys=True))
    return p


def main(argv=None):
    argv = list(sys.argv[1:] if argv is None else argv)
    if argv and argv[0] == "--shard":
        return shard_main(argv[1:])
    if not argv:
        print(__doc__)
        return 2
    pid = argv.pop(0).upper()
    tier = os.environ.get("VERIF_TIER", "quick")
    replay = None
    ncases_override = None
    nshards = min(16, NCPU)
    bare = False
    while argv:
        a = argv.pop(0)
        if a in ("quick", "thorough"):
            tier = a
        elif a == "--replay":
            replay = argv.pop(0)
        elif a == "--bare":
            bare = True
        elif a == "--cases":
            ncases_override = int(argv.pop(0))
        elif a == "--shards":
            nshards = int(argv.pop(0))
        else:
            print("unknown argument", a)
            return 2
    seed = int(os.environ.get("VERIF_SEED", "0") or 0)
    os.environ["VERIF_TIER"] = tier
    os.environ.setdefault("PYTHONHASHSEED", "0")
    os.environ["PYTHONDONTWRITEBYTECODE"] = "1"
    for k in ("OMP_NUM_THREADS", "OPENBLAS_NUM_THREADS", "MKL_NUM_THREADS"):
        os.environ[k] = "1"
    os.environ["MPLBACKEND"] = "Agg"
    sys.path.insert(0, VERIF)
    mod = prop_module(pid)

    if replay:
        return replay_main(mod, pid, replay, bare)

    plan = dict(mod.PLAN[tier])
    ncases = ncases_override if ncases_override is not None else plan["cases"]
    soft_s = float(plan.get("soft_s", 120 if tier == "quick" else 1500))
    hard_s = soft_s * 3 + 120
    t0 = time.time()
    tmp = tempfile.mkdtemp(prefix="vf-%s-" % pid)
    results = []
    dead = []
    try:
        procs = []
        env = dict(os.environ)
        env["PYTHONPATH"] = VERIF + os.pathsep + env.get("PYTHONPATH", "")
        env["VF_SCRATCH"] = tmp
        for s in range(nshards):
            out = os.path.join(tmp, "shard%d.json" % s)
            log = open(os.path.join(tmp, "shard%d.log" % s), "w")
            # hash randomisation (set / dict-of-str iteration order) is an environment setting the library must not depend on: every shard gets its own
            env_s = dict(env, PYTHONHASHSEED=str((int(seed) * 31 + s * 7 + 1) % 4294967295))
            p = subprocess.Popen([PY, "-m", "vf.runner", "--shard", pid, tier, str(seed), str(s), str(nshards), str(ncases),
                                  str(soft_s), out], cwd=VERIF, env=env_s, stdout=log, stderr=subprocess.STDOUT)
            procs.append((s, p, out, log))
        for s, p, out, log in procs:
            try:
                p.wait(timeout=max(1.0, hard_s - (time.time() - t0)))
            except subprocess.TimeoutExpired:
                p.kill()
                p.wait()
                dead.append((s, "watchdog"))
            log.close()
            if os.path.exists(out):
                with open(out) as f:
                    results.append(json.load(f))
            elif (s, "watchdog") not in dead:
                with open(os.path.join(tmp, "shard%d.log" % s)) as f:
                    dead.append((s, "died rc=%s: %s" % (p.returncode, f.read()[-1500:])))
        # extra, non-sharded stages of the property (e.g. the repository test-suite under monitors)
        extra = None
        if hasattr(mod, "extra_stage"):
            extra = mod.extra_stage(tier, seed, tmp)
    finally:
        shutil.rmtree(tmp, ignore_errors=True)
    wall = time.time() - t0
    return finish(mod, pid, tier, seed, plan, results, dead, wall, extra)


def finish(mod, pid, tier, seed, plan, results, dead, wall, extra=None):
    counters = Counter()
    incon = Counter()
    margins = {}
    margin_case = {}
    viols = []
    nviol = 0
    samples = []
    fps = set()
    evaluations = 0
    cases = 0
    herr = []
    for r in results:
        counters.update(r["counters"])
        incon.update(r["inconclusive"])
        for k, v in r["margins"].items():
            if v > margins.get(k, 0.0):
                margin_case[k] = r.get("margin_case", {}).get(k)
            margins[k] = max(margins.get(k, 0.0), v)
        viols.extend(r["violations"])
        nviol += r["nviol"]
        if len(samples) < 4:
            samples.extend(r["samples"][: 4 - len(samples)])
        fps.update(r["fps"])
        evaluations += r["evaluations"]
        cases += r["cases"]
        herr.extend(r["harness_errors"])
    if extra:
        counters.update(extra.get("counters", {}))
        viols.extend(extra.get("violations", []))
        nviol += extra.get("nviol", len(extra.get("violations", [])))
        evaluations += extra.get("evaluations", 0)
        for k, v in extra.get("margins", {}).items():
            margins[k] = max(margins.get(k, 0.0), v)
        incon.update(extra.get("inconclusive", {}))
        herr.extend(extra.get("harness_errors", []))

    known = [k for k in load_known() if k.get("property") == pid]
    known_hits = Counter()
    new_viols = []
    for v in viols:
        hit = None
        for k in known:
            if k.get("status") == "known" and matches(k, v):
                hit = k
                break
        if hit is not None:
            known_hits[hit["id"]] += 1
        else:
            new_viols.append(v)
    for k in known:
        if k.get("status") == "known":
            known_hits[k["id"]] = counters.get("known:" + k["id"], 0)
    unclassified_overflow = nviol - len(new_viols)  # violations beyond the per-shard cap are not individually classified

    # verdict
    reasons = []
    required = list(plan.get("require", []))
    for name in required:
        if counters.get(name, 0) <= 0:
            reasons.append("deciding counter %s is zero" % name)
    if len(fps) < plan.get("min_nontrivial", 2):
        reasons.append("only %d distinct non-trivial cases (minimum %d)" % (len(fps), plan.get("min_nontrivial", 2)))
    if dead:
        reasons.append("shards lost: %s" % dead)
    if herr:
        reasons.append("%d harness errors, first: %s" % (len(herr), herr[0]))
    if evaluations == 0:
        reasons.append("no oracle evaluations")

    rule = getattr(mod, "RULE", "")
    if tier == "thorough" and getattr(mod, "DATASET_CASES", None):
        rule += (" Thorough tier additionally drives the two datasets shipped with the repository (INTEL SE(2), parking-garage SE(3); read with the independent tokenizer, "
                 "quaternions normalised, sub-graphs where a dense reference solve is needed, augmented with synthetic landmarks observed through rotated offsets and with "
                 "cross-coupled information) through the same oracles (%d dataset cases)." % len(mod.DATASET_CASES))
    if tier == "thorough" and hasattr(mod, "extra_stage"):
        rule += " Thorough tier also runs the repository's own test-suite as a workload with this property's monitors attached (pytest plugin vf.pytest_plugin)."
    cov = {
        "evaluations": int(evaluations),
        "distinct_nontrivial": int(len(fps)),
        "rule": rule,
        "samples": samples if samples else [{"note": "no sample recorded"}],
        "cases": int(cases),
        "monitor_evaluations": {k[5:]: v for k, v in sorted(counters.items()) if k.startswith("eval:")},
        "classes_observed": {k: v for k, v in sorted(counters.items()) if not k.startswith(("eval:", "violation:", "vfeat:", "known:"))},
        "violations_by_features": {k[6:]: v for k, v in sorted(counters.items()) if k.startswith("vfeat:")},
        "margins_observed_over_tolerance": {k: float("%.3g" % v) for k, v in sorted(margins.items())},
        "case_index_of_the_largest_margin": {k: margin_case.get(k) for k in sorted(margins) if margin_case.get(k) is not None},
        "inconclusive_cases": dict(incon),
        "violations_by_monitor": {k[10:]: v for k, v in sorted(counters.items()) if k.startswith("violation:")},
        "known_findings_hit": dict(known_hits),
        "verdict_reasons": reasons,
    }
    if getattr(mod, "EXHAUSTIVE", False):
        cov["exhaustive"] = True
    if extra and extra.get("coverage"):
        cov.update(extra["coverage"])
    evidence = {
        "property_id": pid, "tier": tier, "seed": int(seed), "level": "exploration",
        "coverage": jsonable(cov),
        "assumptions": list(getattr(mod, "ASSUMPTIONS", [])) + [
            "CPython of /venv with its numpy/scipy, assertions enabled (no -O)",
            "graphslam imported from the working tree at %s" % os.environ.get("VERIF_REPO", "/repo"),
        ],
        "wall_s": round(wall, 2),
        "violations": int(len(new_viols) + max(0, unclassified_overflow)),
    }
    evdir = os.environ.get("VERIF_EVIDENCE_DIR") or os.path.join(VERIF, "evidence")
    os.makedirs(evdir, exist_ok=True)
    with open(os.path.join(evdir, pid + ".json"), "w") as f:
        json.dump(evidence, f, indent=1, sort_keys=True)
        f.write("\n")

    print("%s %s seed=%d: cases=%d evaluations=%d distinct_nontrivial=%d wall=%.1fs" % (pid, tier, seed, cases, evaluations, len(fps), wall))
    print("  monitors: " + ", ".join("%s=%d" % kv for kv in sorted(cov["monitor_evaluations"].items())))
    if margins:
        print("  margins (observed/tolerance): " + ", ".join("%s=%.2g" % kv for kv in sorted(margins.items())))
    if incon:
        print("  inconclusive cases: " + ", ".join("%s=%d" % kv for kv in sorted(incon.items())))
    for k in known:
        if k.get("status") == "known":
            print("KNOWN-FINDING: property=%s %s [%s; observed %d time(s) in this run]" % (pid, k.get("what", ""), k["id"], known_hits.get(k["id"], 0)))
    if new_viols:
        seen = set()
        for v in new_viols:
            key = (v["monitor"], json.dumps(v.get("features", {}), sort_keys=True))
            if key in seen:
                continue
            seen.add(key)
            path = write_replay(v)
            print("VIOLATION property=%s replay=%s" % (pid, path))
            print("  monitor=%s features=%s" % (v["monitor"], json.dumps(v.get("features", {}), sort_keys=True)))
            if len(seen) >= 8:
                break
        print("  total violating observations: %d" % (len(new_viols) + max(0, unclassified_overflow)))
        return 1
    if reasons:
        print("INCONCLUSIVE property=%s: %s" % (pid, "; ".join(str(r) for r in reasons)))
        return 2
    print("HELD property=%s on everything observed" % pid)
    return 0


def replay_main(mod, pid, path, bare):
    with open(path) as f:
        w = json.load(f)
    ctx = Ctx(pid, w.get("tier", "quick"), int(w.get("seed", 0)))
    os.environ["VERIF_TIER"] = ctx.tier
    idx = w.get("case_index")
    if hasattr(mod, "replay"):
        mod.replay(ctx, w, bare)
    elif idx is not None:
        run_cases(mod, ctx, [idx])
    else:
        print("witness has no case index and the property has no custom replay")
        return 2
    if ctx.violations:
        for v in ctx.violations[:3]:
            print(json.dumps(v, indent=1)[:3000])
        print("VIOLATION property=%s replay=%s" % (pid, path))
        return 1
    if ctx.harness_errors:
        print(ctx.harness_errors[0])
        return 2
    print("replay of %s: no violation reproduced (evaluations=%d)" % (path, ctx.evaluations))
    return 0


if __name__ == "__main__":
    # run through the importable module object so that classes (Skip, Ctx) have one identity
    sys.path.insert(0, VERIF)
    from vf import runner as _r

    sys.exit(_r.main())
