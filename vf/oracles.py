"""Oracles shared by several properties; each takes a Ctx and live real objects."""
import math

import numpy as np

from . import model as M
from . import refmodel as R

EPS = R.EPS


def unit_defect(p):
    q = np.asarray(p, dtype=float)[3:7]
    return abs(float(np.linalg.norm(q)) - 1.0)


def edge_operands(e):
    """(poses, kinds, estimate, offset) numeric content."""
    ks = M.edge_kinds(e)
    P = [M.fl(v.pose) for v in e.vertices]
    est = M.fl(e.estimate) if e.estimate is not None else None
    off = M.fl(e.offset) if getattr(e, "offset", None) is not None else None
    return P, ks, est, off


def edge_in_domain(e, slack=64):
    """SE(3) operands must be unit quaternions (properties are stated for unit quaternions)."""
    P, ks, est, off = edge_operands(e)
    for k, p in zip(ks, P):
        if k == "se3" and unit_defect(p) > slack * EPS:
            return False
    if isinstance(e.estimate, M.PoseSE3) and unit_defect(est) > slack * EPS:
        return False
    if isinstance(getattr(e, "offset", None), M.PoseSE3) and unit_defect(off) > slack * EPS:
        return False
    for arr in P + [est or [], off or []]:
        if not all(math.isfinite(x) for x in arr):
            return False
    return True


def edge_scale(e):
    """Magnitude s = max(1, |translations involved|).  For odometry edges the error depends on the vertex positions only through their
    difference (and the implementation subtracts first), so the scale is the separation, not the distance from the origin."""
    P, ks, est, off = edge_operands(e)
    s = 1.0
    if isinstance(e, M.EdgeOdometry) and len(P) == 2:
        nt = {"r2": 2, "r3": 3, "se2": 2, "se3": 3}[ks[0]]
        s = max(s, max(abs(x - y) for x, y in zip(P[0][:nt], P[1][:nt])), max(abs(x) for x in (est or [0.0])[:nt]))
        return s
    for k, p in zip(ks, P):
        s = max(s, R.tmag(k, p))
    nt_est = {2: 2, 3: 3, 7: 3}.get(len(est or []), 0)
    if isinstance(e.estimate, M.PoseSE2):
        nt_est = 2
    for x in (est or [])[:nt_est]:
        s = max(s, abs(x))
    if off is not None:
        for x in off[: (2 if len(off) == 3 else 3)]:
            s = max(s, abs(x))
    return s


def edge_features(e):
    f = {"edge": type(e).__name__, "kinds": "-".join(M.edge_kinds(e))}
    return f


def err_tol(e, s, n=None):
    """Per-component tolerance: translation-like rows scale with the translation magnitude s,
    rotation rows (SE(3) vector part, SE(2) angle) do not."""
    if n is None:
        return 256 * EPS * s
    t = np.full(n, 256 * EPS * s)
    for r in list(M.rot_rows(e)) + list(M.angle_rows(e)):
        if r < n:
            t[r] = 256 * EPS
    return t


def compare_error(e, real_err, ref_err, s):
    """Return (ok, sigma, maxdiff) comparing a real error vector with the reference one
    (rotational SE(3) part up to a common sign; SE(2) angle exactly in [-pi, pi] modulo the cut ambiguity)."""
    real = np.atleast_1d(np.asarray(real_err, dtype=float))
    ref = np.asarray(ref_err, dtype=float)
    if real.shape != ref.shape:
        return False, np.ones(len(ref)), math.inf
    sig = M.sigma_vector(e, real, ref)
    if isinstance(e, M.EdgeOdometry) and M.rot_rows(e) and sig[3] < 0:
        # q and -q are the same rotation, so two conventions are legitimate for the rotational error: the raw Hamilton
        # error quaternion, or its representative with w >= 0.  They coincide whenever the Hamilton error quaternion
        # already has a positive scalar part - a negated vector part is then neither.
        full = R.odo_err_full("se3", M.fl(e.vertices[0].pose), M.fl(e.vertices[1].pose), M.fl(e.estimate))
        if R.val(full[6]) > 1e-3:
            sig = np.ones(len(ref))
    d = np.abs(real - sig * ref)
    for r in M.angle_rows(e):
        # at the cut, +pi and -pi are the same angle
        if abs(abs(ref[r]) - math.pi) < 1e-9:
            d[r] = min(d[r], abs(abs(real[r]) - abs(ref[r])))
    tol = err_tol(e, s, len(ref))
    with np.errstate(all="ignore"):
        ok = bool(np.all(d <= tol))
        ratio = float(np.nanmax(d / tol)) if d.size else 0.0
    return ok, sig, ratio


def check_edge_jacobians(ctx, e, where, fd=True, case=None, rng=None):
    """C01 oracle on a live edge: real analytic Jacobians vs AD of the reference error."""
    feats = edge_features(e)
    feats["where"] = where
    if not edge_in_domain(e):
        ctx.skip("operand not a unit quaternion / non-finite (out of domain)")
        return None
    s = edge_scale(e)
    with np.errstate(all="ignore"):
        # the Jacobians are requested first: they must not depend on state left behind by an earlier calc_error() call
        Js = e.calc_jacobians()
        real_err = np.atleast_1d(np.asarray(e.calc_error(), dtype=float))
    ref_err, Jref = M.edge_ref_jacobians(e)
    ks = M.edge_kinds(e)
    # structural part
    if not isinstance(Js, (list, tuple)) or len(Js) != len(e.vertices):
        ctx.check("jac-structure", False, feats, {"why": "one Jacobian per vertex expected", "got": len(Js) if hasattr(Js, "__len__") else None}, case)
        return False
    ok_err, sig, dmax = compare_error(e, real_err, ref_err, s)
    # exclusion: SE(2) angular error at the wrap
    for r in M.angle_rows(e):
        if abs(abs(ref_err[r]) - math.pi) < 1e-9:
            ctx.skip("SE(2) angular error at +-pi (excluded by the property)")
            return None
    for r in M.rot_rows(e)[:1]:
        pass
    all_ok = True
    for i, (J, Jr, k) in enumerate(zip(Js, Jref, ks)):
        J = np.asarray(J, dtype=float)
        f = dict(feats, vertex=i)
        if J.shape != (len(ref_err), R.CD[k]):
            ctx.check("jac-shape", False, f, {"shape": J.shape, "expected": (len(ref_err), R.CD[k])}, case)
            all_ok = False
            continue
        if ok_err:
            Jexp = Jr * sig[:, None]
            tol = 1e-11 * s * (1.0 + np.abs(Jr).max())
            rr = M.rot_rows(e)
            if rr and float(np.abs(real_err[rr]).max()) < 1e-9 and float(np.abs(ref_err[rr]).max()) < 1e-9:
                # the rotational error vanishes, so its value cannot tell which of the two legitimate sign conventions
                # (raw Hamilton error quaternion / representative with w >= 0) applies here: accept the Jacobian under either
                alt = sig.copy()
                alt[rr] = -alt[rr]
                with np.errstate(all="ignore"):
                    # (the closer of the two: with a loose tolerance at large scales both may pass, and the margin should describe the right one)
                    if float(np.nanmax(np.abs(J - Jr * alt[:, None]))) < float(np.nanmax(np.abs(J - Jexp))):
                        Jexp = Jr * alt[:, None]
                        ctx.count("sign_convention_undetermined_by_zero_rotational_error")
            all_ok &= ctx.close("jac-vs-AD", J, Jexp, tol, f, {"scale": s}, case)
        else:
            ctx.count("refmodel_error_disagrees(decided by finite differences)")
    if fd or not ok_err:
        # second opinion through the real error and the real boxplus (Richardson central differences)
        near_cut = False
        for r in M.angle_rows(e):
            near_cut |= abs(ref_err[r]) > math.pi - 0.02
        if M.rot_rows(e):
            full = R.odo_err_full(ks[0], *[M.fl(v.pose) for v in e.vertices], M.fl(e.estimate)) if isinstance(e, M.EdgeOdometry) else None
            if full is not None and abs(R.val(full[6])) < 0.02:
                near_cut = True
        if near_cut:
            ctx.count("fd_skipped_near_discontinuity")
        else:
            for i, (J, k) in enumerate(zip(Js, ks)):
                J = np.asarray(J, dtype=float)
                if J.shape != (len(ref_err), R.CD[k]):
                    continue
                v = e.vertices[i]
                p0 = v.pose

                def f_real(d, v=v, p0=p0):
                    v.pose = p0 + np.array(d, dtype=float)
                    try:
                        return [float(x) for x in np.atleast_1d(e.calc_error())]
                    finally:
                        v.pose = p0

                h = 1e-3 if k != "se3" else 1e-3
                with np.errstate(all="ignore"):
                    Jfd = R.richardson_jac(f_real, R.CD[k], h)
                # finite differences of the real error are limited by the absolute coordinates (rounding eps x |t| divided by the step)
                s_abs = max([s] + [R.tmag(kk, M.fl(vv.pose)) for kk, vv in zip(ks, e.vertices)])
                tolfd = 1e-7 * s_abs * (1.0 + np.abs(Jfd).max())
                all_ok &= ctx.close("jac-vs-FD-of-real-error", J, Jfd, tolfd, dict(feats, vertex=i), {"scale": s}, case)
    return all_ok


def chi2_bound(err, Om, s):
    """Rounding bound for e^T Om e given |de| <= 256 eps s."""
    a = np.abs(np.asarray(err, dtype=float))
    A = np.abs(np.asarray(Om, dtype=float))
    de = 256 * EPS * s
    n = len(a)
    return float(64 * EPS * (a @ A @ a) + 2 * de * (np.ones(n) @ A @ a) + de * de * A.sum())


def check_edge_error(ctx, e, where, case=None, chi2=True):
    """C02 oracle on a live edge: calc_error and calc_chi2 vs the reference model."""
    feats = edge_features(e)
    feats["where"] = where
    if not edge_in_domain(e):
        ctx.skip("operand not a unit quaternion / non-finite (out of domain)")
        return None
    s = edge_scale(e)
    with np.errstate(all="ignore"):
        real_err = np.atleast_1d(np.asarray(e.calc_error(), dtype=float))
    ref_err = M.edge_ref_error(e)
    ok, sig, dmax = compare_error(e, real_err, ref_err, s)
    ctx.margin("error-vs-reference", dmax)
    ctx.check("error-vs-reference", ok, feats, {"real": real_err, "reference": ref_err, "scale": s, "diff_over_tol": dmax}, case)
    for r in M.angle_rows(e):
        inr = -math.pi - 4 * EPS <= real_err[r] <= math.pi + 4 * EPS if len(real_err) > r else False
        ctx.check("error-angle-in-range", inr, feats, {"angle": real_err[r] if len(real_err) > r else None}, case)
    for r in M.angle_rows(e):
        if abs(abs(ref_err[r]) - math.pi) < 1e-9:
            # the angular error is at its discontinuity (+pi and -pi are the same angle but give different e^T Omega e
            # when Omega couples angle and translation): excluded, as for C01
            ctx.skip("SE(2) angular error at +-pi: chi2 not compared")
            return None
    if chi2 and ok:
        Om = np.asarray(e.information, dtype=float)
        with np.errstate(all="ignore"):
            c_real = float(e.calc_chi2())
        er = sig * ref_err
        c_ref = float(er @ Om @ er)
        b = chi2_bound(er, Om, s)
        ctx.close("chi2-vs-eT-Omega-e", c_real, c_ref, b, feats, {"scale": s}, case)
        return c_real, c_ref, b
    return None
