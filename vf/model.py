"""Bridge between the real graphslam objects and the reference model.

* plain-data graph *specs* (JSON-serialisable) -> real Graph objects (``build``)
* reference error / chi2 / AD Jacobians / dense normal equations computed from the numeric
  content of live real objects (read only, never through the real operators)
"""
import io
import contextlib
import math
import warnings

import numpy as np

from . import env  # noqa: F401  (import path bootstrap)
from . import refmodel as R

from graphslam.graph import Graph
from graphslam.vertex import Vertex
from graphslam.edge.base_edge import BaseEdge
from graphslam.edge.edge_odometry import EdgeOdometry
from graphslam.edge.edge_landmark import EdgeLandmark
from graphslam.pose.base_pose import BasePose
from graphslam.pose.r2 import PoseR2
from graphslam.pose.r3 import PoseR3
from graphslam.pose.se2 import PoseSE2
from graphslam.pose.se3 import PoseSE3
from graphslam.g2o_parameters import G2OParameterSE2Offset, G2OParameterSE3Offset

CLS = {"r2": PoseR2, "r3": PoseR3, "se2": PoseSE2, "se3": PoseSE3}
KIND_OF_CLS = {PoseR2: "r2", PoseR3: "r3", PoseSE2: "se2", PoseSE3: "se3"}


def kind(p):
    k = KIND_OF_CLS.get(type(p))
    if k is None:
        for c in type(p).__mro__:
            if c in KIND_OF_CLS:
                return KIND_OF_CLS[c]
        raise KeyError(type(p))
    return k


class SubPoseR2(PoseR2):
    """User subclasses of the built-in poses (clients add fields / behaviour this way); they are poses of the same kind."""


class SubPoseR3(PoseR3):
    pass


class SubPoseSE2(PoseSE2):
    pass


class SubPoseSE3(PoseSE3):
    pass


SUBPOSE = {"r2": SubPoseR2, "r3": SubPoseR3, "se2": SubPoseSE2, "se3": SubPoseSE3}


def as_subclass(p):
    """The same numbers in an instance of a user subclass of p's pose class."""
    return np.array(fl(p), dtype=np.float64).view(SUBPOSE[kind(p)])


def mkpose(k, l):
    if k == "r2":
        return PoseR2([l[0], l[1]])
    if k == "r3":
        return PoseR3([l[0], l[1], l[2]])
    if k == "se2":
        return PoseSE2([l[0], l[1]], l[2])
    return PoseSE3([l[0], l[1], l[2]], [l[3], l[4], l[5], l[6]])


def raw_se2(l):
    """A PoseSE2 carrying exactly the given numbers (no constructor wrap) - used to build operands."""
    return np.array(l, dtype=np.float64).view(PoseSE2)


def fl(p):
    """Numeric content of a pose / array as a list of Python floats."""
    return [float(x) for x in np.asarray(p, dtype=np.float64).ravel()]


# --------------------------------------------------------------------------- #
# spec -> real graph
# --------------------------------------------------------------------------- #
def build_vertices(spec):
    """spec["share"] (optional): groups of vertex ids whose initial poses share storage - the same pose *object*
    (share_mode "object") or, for R^n poses, separate objects built from one numpy array (share_mode "array";
    PoseR2/PoseR3 constructors do not copy a float64 array).  Legal client code: the library never promises to copy."""
    shared = {}
    groups = {}
    for gi, grp in enumerate(spec.get("share", [])):
        for vid in grp:
            groups[vid] = gi
    mode = spec.get("share_mode", "object")
    out = []
    np_ids = bool(spec.get("np_ids"))
    for v in spec["vertices"]:
        gi = groups.get(v["id"])
        if gi is None:
            pose = mkpose(v["kind"], v["pose"])
        elif mode == "array" and v["kind"] in ("r2", "r3"):
            if gi not in shared:
                shared[gi] = np.array(v["pose"], dtype=np.float64)
            pose = CLS[v["kind"]](shared[gi])
        else:
            if gi not in shared:
                shared[gi] = mkpose(v["kind"], v["pose"])
            pose = shared[gi]
        fx = v.get("fixed", False)
        vid = np.int64(v["id"]) if np_ids and abs(v["id"]) < 2 ** 62 else v["id"]
        out.append(Vertex(vid, pose, fixed=fx if isinstance(fx, int) and not isinstance(fx, bool) else bool(fx)))
    return out


def build_edge(e):
    from . import custom

    info = np.array(e["info"], dtype=np.float64)
    if e.get("info_dtype") == "int":
        info = np.array(e["info"]).astype(np.int64)  # whole-number information given as an integer array (np.eye(3, dtype=int), np.diag([1, 2, 3]))
    t = e["type"]
    if t == "odo":
        return EdgeOdometry(list(e["ids"]), info, mkpose(e["est_kind"], e["est"]))
    if t == "lm":
        off = None if e.get("off") is None else mkpose(e["off_kind"], e["off"])
        return EdgeLandmark(list(e["ids"]), info, mkpose(e["est_kind"], e["est"]), off, offset_id=e.get("off_id"))
    if t.startswith("custom:"):
        return custom.make(e, info)
    raise ValueError(t)


def build(spec):
    vs = build_vertices(spec)
    es = [build_edge(e) for e in spec["edges"]]
    if spec.get("prebind_stale"):
        # the edges arrive already linked to *other* Vertex objects carrying the same ids (e.g. a ground-truth graph built from the same edge objects);
        # constructing this graph must link them to this graph's vertices
        rng = np.random.default_rng(4242)
        twins = {}
        for v in vs:
            tw = Vertex(v.id, mkpose(kind(v.pose), [x + float(rng.normal()) for x in fl(v.pose)]) if kind(v.pose) != "se3" else v.pose.copy())
            if kind(v.pose) == "se3":
                tw.pose[:3] = [x + float(rng.normal()) for x in fl(v.pose)[:3]]
            twins[v.id] = tw
        for e in es:
            e.vertices = [twins[i] for i in e.vertex_ids]
    if spec.get("np_ids"):
        # ids as numpy integers (what client code gets from np.arange / array indexing) instead of Python ints
        for e in es:
            e.vertex_ids = [np.int64(i) if abs(i) < 2 ** 62 else i for i in e.vertex_ids]
    g = Graph(es, vs)
    if spec.get("params"):
        params = {}
        for p in spec["params"]:
            if p["tag"] == "PARAMS_SE2OFFSET":
                params[(p["tag"], p["id"])] = G2OParameterSE2Offset((p["tag"], p["id"]), mkpose("se2", p["value"]))
            else:
                params[(p["tag"], p["id"])] = G2OParameterSE3Offset((p["tag"], p["id"]), mkpose("se3", p["value"]))
        g._g2o_params = params
        # as the loader does: a landmark edge that names a registered parameter uses the parameter's own pose object as its offset
        for e in g._edges:
            if isinstance(e, EdgeLandmark) and isinstance(e.offset, PoseSE3):
                prm = params.get(("PARAMS_SE3OFFSET", e.offset_id))
                if prm is not None and fl(prm.value) == fl(e.offset):
                    e.offset = prm.value
    return g


_CALLS = [0]


def _call_optimize(g, kw):
    """Call the real optimize() with keywords or - every other time, when all four documented parameters are given - positionally in the
    documented order (tol, max_iter, fix_first_pose, verbose): both are the public interface."""
    _CALLS[0] += 1
    if _CALLS[0] % 5 == 3:
        # arguments as they come out of other computations: numpy scalars and 0/1 integers instead of Python bool / int / float
        kw = dict(kw)
        if isinstance(kw.get("fix_first_pose"), bool):
            kw["fix_first_pose"] = (np.bool_(kw["fix_first_pose"]) if _CALLS[0] % 2 else int(kw["fix_first_pose"]))
        if isinstance(kw.get("max_iter"), int) and not isinstance(kw.get("max_iter"), bool):
            kw["max_iter"] = np.int64(kw["max_iter"])
        if isinstance(kw.get("tol"), float):
            kw["tol"] = np.float64(kw["tol"])
        ENV_COUNTS["numpy_scalar_arguments"] = ENV_COUNTS.get("numpy_scalar_arguments", 0) + 1
    if _CALLS[0] % 2 and set(kw) == {"tol", "max_iter", "fix_first_pose", "verbose"}:
        return g.optimize(kw["tol"], kw["max_iter"], kw["fix_first_pose"], kw["verbose"])
    return g.optimize(**kw)


class DebugLogging:
    """The library's loggers switched to DEBUG with a handler attached (an application debugging its SLAM pipeline), or logging disabled process-wide."""

    def __init__(self, mode="debug"):
        self.mode = mode

    def __enter__(self):
        import logging

        if self.mode == "disabled":
            self.prev_disable = logging.root.manager.disable
            logging.disable(logging.CRITICAL)
            return self
        self.lg = logging.getLogger("graphslam")
        self.h = logging.NullHandler()
        self.h.setLevel(logging.DEBUG)
        self.old = (self.lg.level, self.lg.propagate)
        self.lg.addHandler(self.h)
        self.lg.setLevel(logging.DEBUG)
        self.lg.propagate = False
        self.kids = []
        for name, obj in list(logging.root.manager.loggerDict.items()):
            if name.startswith("graphslam.") and isinstance(obj, logging.Logger):
                self.kids.append((obj, obj.level, obj.propagate))
                obj.setLevel(logging.DEBUG)
                obj.propagate = False
                obj.addHandler(self.h)
        return self

    def __exit__(self, *a):
        import logging

        if self.mode == "disabled":
            logging.disable(self.prev_disable)
            return False
        self.lg.setLevel(self.old[0])
        self.lg.propagate = self.old[1]
        self.lg.removeHandler(self.h)
        for obj, lvl, prop in self.kids:
            obj.setLevel(lvl)
            obj.propagate = prop
            obj.removeHandler(self.h)
        return False


ENV_COUNTS = {"default": 0, "debug": 0, "disabled": 0}


def quiet_optimize(g, **kw):
    """optimize() with its output captured.  Process-wide logging state is rotated deterministically (a function of the call's own arguments): most calls run
    with the default configuration, some with the library's loggers at DEBUG, some with logging disabled - the results must not depend on it."""
    kw.setdefault("verbose", False)
    sel = (len(getattr(g, "_vertices", ())) * 7 + len(getattr(g, "_edges", ())) * 3 + int(kw.get("max_iter", 20) or 0)) % 6
    mode = "debug" if sel == 1 else "disabled" if sel == 4 else "default"
    ENV_COUNTS[mode] += 1
    if mode != "default":
        with DebugLogging(mode):
            return _quiet_optimize(g, kw)
    return _quiet_optimize(g, kw)


PROCESS_LEAKS = []


def process_state():
    """Process-wide settings that library calls have no business changing: numpy's floating-point error mode and print options, the
    interpreter's warning filters (count), the library loggers' levels - and what the pose classes hand out as the identity element."""
    import logging

    ident = {}
    for kk, cls in CLS.items():
        try:
            ident[kk] = fl(cls.identity())
        except Exception as ex:  # noqa: BLE001
            ident[kk] = type(ex).__name__
    return {"identity()": ident, "np.geterr": dict(np.geterr()), "np.printoptions": {k: (v if not callable(v) else "callable") for k, v in np.get_printoptions().items()},
            "warnings.filters": len(warnings.filters), "logging:graphslam": logging.getLogger("graphslam").level,
            "logging:graphslam.graph": logging.getLogger("graphslam.graph").level}


def _quiet_optimize(g, kw):
    with warnings.catch_warnings():
        warnings.simplefilter("ignore")
        with np.errstate(all="ignore"):
            before = process_state()
            try:
                return _quiet_optimize_inner(g, kw)
            finally:
                after = process_state()
                if after != before:
                    PROCESS_LEAKS.append({k: [before[k], after[k]] for k in before if before[k] != after[k]})


def _quiet_optimize_inner(g, kw):
    if kw["verbose"]:
        buf = io.StringIO()
        with contextlib.redirect_stdout(buf):
            r = _call_optimize(g, kw)
        return r, buf.getvalue()
    return _call_optimize(g, kw)


def snapshot_poses(g):
    return [fl(v.pose) for v in g._vertices]


# --------------------------------------------------------------------------- #
# reference quantities from live edges
# --------------------------------------------------------------------------- #
def edge_kinds(e):
    return [kind(v.pose) for v in e.vertices]


def edge_ref_fn(e):
    """Return f(poses) -> reference error list, where poses is a list (one per edge vertex) of
    plain/Dual lists.  Reads the edge's estimate/offset once (as floats)."""
    ks = edge_kinds(e)
    if isinstance(e, EdgeOdometry):
        k = ks[0]
        z = fl(e.estimate)
        return lambda P: R.odo_err(k, P[0], P[1], z)
    if isinstance(e, EdgeLandmark):
        k = ks[0]
        z = fl(e.estimate)
        off = fl(e.offset)
        return lambda P: R.lm_err(k, P[0], P[1], z, off)
    if hasattr(e, "ref_error"):
        return lambda P: e.ref_error(ks, P)
    raise TypeError("no reference model for %r" % type(e))


def edge_ref_error(e, poses=None):
    f = edge_ref_fn(e)
    P = poses if poses is not None else [fl(v.pose) for v in e.vertices]
    return np.array(R.vals(f(P)), dtype=float)


def edge_ref_jacobians(e, poses=None):
    """AD derivative of the reference error w.r.t. each vertex's boxplus increment at 0."""
    f = edge_ref_fn(e)
    ks = edge_kinds(e)
    P = poses if poses is not None else [fl(v.pose) for v in e.vertices]
    out = []
    err = None
    for i, k in enumerate(ks):
        def g(d, i=i, k=k):
            Q = list(P)
            Q[i] = R.box(k, P[i], d)
            return f(Q)
        err, J = R.jac(g, R.CD[k])
        out.append(J)
    return err, out


def rot_rows(e):
    """Indices of error components that are the vector part of an SE(3) error quaternion (sign-ambiguous)."""
    if isinstance(e, EdgeOdometry) and kind(e.vertices[0].pose) == "se3":
        return [3, 4, 5]
    return list(getattr(e, "rot_rows", []))


def sigma_vector(e, real_err, ref_err):
    """The sign relation between the real and the reference rotational error (q and -q are the same rotation).
    Returns a vector of +-1 per error component."""
    n = len(ref_err)
    s = np.ones(n)
    rr = rot_rows(e)
    if rr:
        a = np.asarray(real_err, dtype=float)[rr]
        b = np.asarray(ref_err, dtype=float)[rr]
        if np.linalg.norm(a + b) < np.linalg.norm(a - b):
            s[rr] = -1.0
    return s


def angle_rows(e):
    if isinstance(e, EdgeOdometry) and kind(e.vertices[0].pose) == "se2":
        return [2]
    return list(getattr(e, "angle_rows", []))


CONVENTION = ["real"]  # "real": follow the implementation's sign choice; "canonical": w >= 0 for built-in odometry edges


def aligned_sigma(e, ref_err):
    """Sign relation between the implementation's rotational error and the Hamilton one of the reference (both q and -q are legitimate
    representatives; the value of e^T Omega e depends on the choice when Omega couples translation and rotation)."""
    if not rot_rows(e):
        return np.ones(len(ref_err))
    if CONVENTION[0] == "canonical" and isinstance(e, EdgeOdometry):
        # the physical convention: the representative of the error rotation with non-negative scalar part (a function of the rotation itself,
        # not of which of q / -q the client happened to store)
        full = R.odo_err_full("se3", fl(e.vertices[0].pose), fl(e.vertices[1].pose), fl(e.estimate))
        sg = np.ones(len(ref_err))
        if R.val(full[6]) < 0:
            sg[rot_rows(e)] = -1.0
        return sg
    with np.errstate(all="ignore"):
        try:
            real = np.atleast_1d(np.asarray(e.calc_error(), dtype=float))
        except Exception:
            return np.ones(len(ref_err))
    if real.shape != np.shape(ref_err):
        return np.ones(len(ref_err))
    return sigma_vector(e, real, ref_err)


def ref_graph_chi2(g):
    tot = 0.0
    for e in g._edges:
        er = edge_ref_error(e)
        er = er * aligned_sigma(e, er)
        Om = np.asarray(e.information, dtype=float)
        tot += float(er @ Om @ er)
    return tot


def index_map(g):
    idx = {}
    n = 0
    for v in g._vertices:
        idx[id(v)] = n
        n += R.CD[kind(v.pose)]
    return idx, n


def free_mask(g, n, idx, fixed_ids=None):
    free = np.ones(n, bool)
    for v in g._vertices:
        fx = v.fixed if fixed_ids is None else (id(v) in fixed_ids)
        if fx:
            i = idx[id(v)]
            free[i:i + R.CD[kind(v.pose)]] = False
    return free


LAST_ABS = {}


def assemble(g, source="ref"):
    """Dense H, b, chi2 for the live graph.

    source='ref' : reference errors and AD Jacobians (sign-aligned to the real error convention)
    source='real': the real edges' own calc_error / calc_jacobians (isolates accumulation/solve)
    """
    idx, n = index_map(g)
    H = np.zeros((n, n))
    b = np.zeros(n)
    babs = np.zeros(n)
    chi = 0.0
    for e in g._edges:
        Om = np.asarray(e.information, dtype=float)
        if source == "ref":
            er, Js = edge_ref_jacobians(e)
            sg = aligned_sigma(e, er)
            if np.any(sg < 0):
                er = er * sg
                Js = [J * sg[:, None] for J in Js]
        else:
            er = np.atleast_1d(np.asarray(e.calc_error(), dtype=float))
            Js = [np.asarray(J, dtype=float).reshape(len(er), -1) for J in e.calc_jacobians()]
        chi += float(er @ Om @ er)
        for va, Ja in zip(e.vertices, Js):
            ia = idx[id(va)]
            ca = Ja.shape[1]
            b[ia:ia + ca] += Ja.T @ Om @ er
            babs[ia:ia + ca] += np.abs(Ja.T) @ np.abs(Om) @ np.abs(er)
            for vb, Jb in zip(e.vertices, Js):
                ib = idx[id(vb)]
                H[ia:ia + ca, ib:ib + Jb.shape[1]] += Ja.T @ Om @ Jb
    LAST_ABS["babs"] = babs  # sum of absolute contributions per gradient entry (rounding bound for the accumulated gradient)
    return H, b, chi, idx, n


def reduced_step(H, b, free):
    """dx = -H_ff^-1 b_f on the free block, 0 elsewhere; also cond(H_ff)."""
    n = len(b)
    dx = np.zeros(n)
    if free.sum() == 0:
        return dx, 1.0
    Hf = H[np.ix_(free, free)]
    bf = b[free]
    with np.errstate(all="ignore"):
        try:
            cond = float(np.linalg.cond(Hf))
        except np.linalg.LinAlgError:
            cond = math.inf
        if not np.isfinite(cond) or cond > 1e15:
            return None, cond
        dx[free] = -np.linalg.solve(Hf, bf)
    return dx, cond


def applied_increment(k, before, after):
    """compact(before^-1 (+) after), with the SE(3) sign chosen so that w >= 0, SE(2) angle wrapped."""
    d = R.oplus(k, R.inv(k, before), after)
    if k == "se3":
        if d[6] < 0:
            d = d[:3] + [-x for x in d[3:]]
        return d[:6]
    if k == "se2":
        return [d[0], d[1], R.wrap(d[2])]
    return d


def pose_distance(k, a, b):
    """(translation distance, rotation distance) between two poses of kind k, rotation up to quaternion sign / 2pi."""
    nt = {"r2": 2, "r3": 3, "se2": 2, "se3": 3}[k]
    dt = max(abs(x - y) for x, y in zip(a[:nt], b[:nt]))
    if k == "se2":
        return dt, R.ang_diff(a[2], b[2])
    if k == "se3":
        qa, qb = np.array(a[3:]), np.array(b[3:])
        return dt, float(min(np.abs(qa - qb).max(), np.abs(qa + qb).max()))
    return dt, 0.0


def same_numbers(k, x, y):
    """Bitwise equality of two numeric pose contents, identifying the SE(2) angles +pi and -pi
    (the constructor maps +pi to -pi, so a copy of a pose whose stored angle is exactly +pi stores -pi: same pose)."""
    x, y = list(x), list(y)
    if len(x) != len(y):
        return False
    for j, (a, b) in enumerate(zip(x, y)):
        if a == b or (a != a and b != b):
            continue
        if k == "se2" and j == 2 and abs(a) == math.pi and abs(b) == math.pi:
            continue
        if k == "se2" and j == 2 and math.isfinite(a) and math.isfinite(b) and R.ang_diff(a, b) <= 4 * R.EPS * math.pi:
            # re-normalising an angle that is already in range need not be the identity to the last bit (an arctan2-based wrap is not): the same
            # angle to rounding is the same pose
            continue
        return False
    return True


def iteration_amplification(spec, base_graph_after, kw, delta=1e-11):
    """Measured conditioning of the K-iteration map at this input: re-run the same optimize() call from initial poses right-perturbed by
    `delta` (free vertices only) and return max pose difference / delta.  Comparisons between two executions that differ only by rounding can
    legitimately differ by (rounding of the first solve) x this factor; a huge factor means the run is in a chaotic / expanding regime."""
    from . import gen

    rng = np.random.default_rng(987654321)
    s2 = gen.copy_spec(spec)
    s2.pop("share", None)
    ffp = kw.get("fix_first_pose", True)
    for j, v in enumerate(s2["vertices"]):
        if v.get("fixed") or (ffp and j == 0):
            continue
        live = fl(mkpose(v["kind"], v["pose"]))
        v["pose"] = gen.perturb(rng, v["kind"], live, delta, delta)
    g2 = build(s2)
    try:
        quiet_optimize(g2, **kw)
    except Exception:
        return math.inf
    worst = 0.0
    for a, b in zip(base_graph_after._vertices, g2._vertices):
        k = kind(a.pose)
        p, q = fl(a.pose), fl(b.pose)
        if not all(math.isfinite(x) for x in p + q):
            return math.inf
        dt, dr = pose_distance(k, p, q)
        worst = max(worst, dt, dr)
    return worst / delta


def edges_linked_to_graph(g):
    """Every edge's vertices are the listed Vertex objects that carry the ids it names."""
    byid = {}
    for v in g._vertices:
        byid[v.id] = v
    for e in g._edges:
        if e.vertices is None or len(e.vertices) != len(e.vertex_ids):
            return False
        for ev, vid in zip(e.vertices, e.vertex_ids):
            if byid.get(vid) is not ev:
                return False
    return True
