"""pytest plugin: run the repository's own test-suite as a workload under the monitors.

Enabled with  GRAPHSLAM_VERIF=1  and  -p vf.pytest_plugin  (PYTHONPATH must contain /verif and the repository).
VF_PLUGIN_PROP selects the property whose monitors are attached (C01, C02, C06, C09, C10, C11, C12, C14, C15); VF_PLUGIN_OUT is the JSON file
that receives what the monitors observed.  A monitor that fires here is a witness to be read, never silenced.
"""
import json
import math
import os

import numpy as np

ENABLED = os.environ.get("GRAPHSLAM_VERIF") == "1"
_state = {}


def pytest_sessionstart(session):
    if not ENABLED:
        return
    from . import model as M, oracles as O, refmodel as R
    from .monitors import Monitor, first_n_then_every
    from .runner import Ctx

    prop = os.environ.get("VF_PLUGIN_PROP", "C01")
    ctx = Ctx(prop, "thorough", int(os.environ.get("VERIF_SEED", "0") or 0))
    mon = Monitor()
    _state.update(ctx=ctx, mon=mon, prop=prop)
    samp = first_n_then_every(400, 23)

    def attached(e):
        return e.vertices is not None and all(getattr(v, "pose", None) is not None and type(v.pose) in M.KIND_OF_CLS for v in e.vertices)

    def well_typed(e):
        try:
            return attached(e) and e.is_valid()
        except Exception:
            return False

    if prop == "C01":
        def after(args, kwargs, result, exc, token):
            e = args[0]
            if exc is None and well_typed(e):
                O.check_edge_jacobians(ctx, e, "repository-test-suite", fd=False)
        mon.attach(M.EdgeOdometry, "calc_jacobians", after=after, sample=samp)
        mon.attach(M.EdgeLandmark, "calc_jacobians", after=after, sample=samp)
    elif prop == "C02":
        def after(args, kwargs, result, exc, token):
            e = args[0]
            if exc is None and well_typed(e):
                O.check_edge_error(ctx, e, "repository-test-suite", chi2=True)
        mon.attach(M.EdgeOdometry, "calc_error", after=after, sample=samp)
        mon.attach(M.EdgeLandmark, "calc_error", after=after, sample=samp)
    elif prop in ("C09", "C11"):
        from .props import c09

        def dom(p):
            if isinstance(p, M.PoseSE3):
                return O.unit_defect(M.fl(p)) <= 64 * R.EPS
            return all(math.isfinite(x) for x in M.fl(p))

        for cls, k in ((M.PoseSE2, "se2"), (M.PoseSE3, "se3"), (M.PoseR2, "r2"), (M.PoseR3, "r3")):
            def after_add(args, kwargs, result, exc, token, k=k, cls=cls):
                a, b = args
                if exc is not None or type(a) is not cls or not dom(a):
                    return
                la = M.fl(a)
                if type(b) is cls and dom(b):
                    lb = M.fl(b)
                    if prop == "C09":
                        c09.pose_close(ctx, "oplus-vs-reference", k, result, R.oplus(k, la, lb), 1 + R.tmag(k, la) + R.tmag(k, lb), {"kind": k, "where": "repository-test-suite"},
                                       {"a": la, "b": lb})
                    elif k == "se2":
                        ctx.check("se2-angle-in-range", -math.pi <= float(result[2]) <= math.pi, {"op": "add", "where": "repository-test-suite"}, {"theta": float(result[2])})
                    elif k == "se3":
                        d = abs(float(np.linalg.norm(np.asarray(result)[3:])) - 1.0)
                        ctx.check("se3-unit-norm", d <= 64 * R.EPS, {"op": "add", "where": "repository-test-suite"}, {"defect": d})

            def after_sub(args, kwargs, result, exc, token, k=k, cls=cls):
                a, b = args
                if exc is not None or type(a) is not cls or type(b) is not cls or not (dom(a) and dom(b)):
                    return
                la, lb = M.fl(a), M.fl(b)
                if prop == "C09":
                    c09.pose_close(ctx, "ominus-vs-reference", k, result, R.ominus(k, la, lb), 1 + R.tmag(k, la) + R.tmag(k, lb), {"kind": k, "where": "repository-test-suite"},
                                   {"a": la, "b": lb})
                elif k == "se2":
                    ctx.check("se2-angle-in-range", -math.pi <= float(result[2]) <= math.pi, {"op": "sub", "where": "repository-test-suite"}, {"theta": float(result[2])})
                elif k == "se3":
                    d = abs(float(np.linalg.norm(np.asarray(result)[3:])) - 1.0)
                    ctx.check("se3-unit-norm", d <= 64 * R.EPS, {"op": "sub", "where": "repository-test-suite"}, {"defect": d})

            def after_inv(args, kwargs, result, exc, token, k=k, cls=cls):
                a = args[0]
                if exc is not None or type(a) is not cls or not dom(a):
                    return
                la = M.fl(a)
                if prop == "C09":
                    c09.pose_close(ctx, "inverse-two-sided", k, result, R.inv(k, la), 1 + R.tmag(k, la), {"kind": k, "where": "repository-test-suite", "side": "vs-reference"}, {"a": la})
                elif k == "se2":
                    ctx.check("se2-angle-in-range", -math.pi <= float(result[2]) <= math.pi, {"op": "inverse", "where": "repository-test-suite"}, {"theta": float(result[2])})

            mon.attach(cls, "__add__", after=after_add, sample=samp)
            mon.attach(cls, "__sub__", after=after_sub, sample=samp)
            mon.attach(cls, "inverse", after=after_inv, sample=samp)
    elif prop == "C10":
        def mk(name, cls, k):
            def after(args, kwargs, result, exc, token):
                a = args[0]
                if exc is not None or type(a) is not cls:
                    return
                J = np.asarray(result, dtype=float)
                n, c = R.FD[k], R.CD[k]
                rows = {"_compact": c}.get(name[-8:], None)
                if name == "jacobian_boxplus":
                    ok = J.shape == (n, c)
                elif "point_wrt_self" in name:
                    ok = J.shape == (R.FD[R.POINT_OF[k]], n)
                elif "point_wrt_point" in name:
                    ok = J.shape == (R.FD[R.POINT_OF[k]],) * 2
                else:
                    ok = J.shape == ((rows or n), n)
                ctx.check("shape", ok, {"kind": k, "method": name, "where": "repository-test-suite"}, {"shape": J.shape})
            return after
        from .props import c10

        for cls, k in ((M.PoseSE2, "se2"), (M.PoseSE3, "se3"), (M.PoseR2, "r2"), (M.PoseR3, "r3")):
            for name in c10.METHODS:
                mon.attach(cls, name, after=mk(name, cls, k), sample=samp)
    elif prop in ("C06", "C12", "C14", "C15"):
        _attach_graph_level(prop, ctx, mon, M, R)


def _attach_graph_level(prop, ctx, mon, M, R):
    """C06 / C12 / C15: every Graph.optimize call of the test-suite; C14: every Graph.from_g2o call (a classmethod, wrapped by hand)."""
    from .props import c12, c15

    if prop in ("C06", "C12", "C15"):
        def before(args, kwargs):
            g = args[0]
            ffp = kwargs.get("fix_first_pose", args[3] if len(args) > 3 else True)
            try:
                with np.errstate(all="ignore"):
                    c0 = float(g.calc_chi2())
            except Exception:  # noqa: BLE001
                c0 = None
            return (c15.snap(g), bool(ffp), c0)

        def after(args, kwargs, result, exc, token):
            if exc is not None or token is None:
                return
            g = args[0]
            snap0, ffp, c0 = token
            snap1 = c15.snap(g)
            if prop == "C15":
                d = c15.diff_snap(snap0, snap1, ignore_poses=True, allow_first_fixed=ffp)
                ctx.check("optimize-changes-only-poses", not d, {"where": "repository-test-suite", "fix_first_pose": ffp}, {"differences": d[:5]})
            elif prop == "C06":
                for j, (x, y) in enumerate(zip(snap0["v"], snap1["v"])):
                    if x[1] or (ffp and j == 0):
                        ctx.check("fixed-pose-unchanged", c15.nums_equal(x[3], y[3]) and bool(y[1]), {"where": "repository-test-suite", "first_listed": j == 0},
                                  {"vertex": j, "before": x[3], "after": y[3]})
            else:
                with np.errstate(all="ignore"):
                    try:
                        c1 = float(g.calc_chi2())
                    except Exception:  # noqa: BLE001
                        c1 = None
                if c1 is not None and result is not None:
                    ctx.check("final-chi2-is-calc_chi2", c12.same_float(result.final_chi2, c1), {"where": "repository-test-suite"}, {"final_chi2": result.final_chi2, "calc_chi2": c1})
                if c0 is not None and result is not None:
                    ctx.check("report-chi2-sequence", c12.same_float(result.initial_chi2, c0), {"where": "repository-test-suite", "what": "initial chi2"},
                              {"initial_chi2": result.initial_chi2, "calc_chi2_before": c0})
        mon.attach(M.Graph, "optimize", after=after, before=before)
    elif prop == "C14":
        from .props import c14

        orig = M.Graph.__dict__["from_g2o"]
        func = orig.__func__

        def from_g2o(cls, infile, custom_edge_types=None):
            g = func(cls, infile, custom_edge_types)
            mon.calls["Graph.from_g2o"] = mon.calls.get("Graph.from_g2o", 0) + 1
            if not custom_edge_types and not mon.busy:
                mon.busy = True
                try:
                    # the tests sometimes replace graphslam.graph.open by an in-memory file: read through whatever the loader itself used
                    import graphslam.graph as gg

                    opener = getattr(gg, "open", open)
                    try:
                        with opener(infile) as f:
                            text = f.read()
                    except Exception:  # noqa: BLE001 - an observer never disturbs the observed call
                        text = None
                        ctx.count("suite:file_not_readable_by_the_observer")
                    if isinstance(text, str):
                        try:
                            verts, edges, params, junk = c14.expected_from_text([(text, None)], set())
                            c14.compare_loaded(ctx, g, verts, edges, params, {"where": "repository-test-suite"}, {"file": os.path.basename(str(infile))})
                        except Exception as ex:  # noqa: BLE001
                            ctx.count("suite:observer_error:" + type(ex).__name__)
                finally:
                    mon.busy = False
            return g
        M.Graph.from_g2o = classmethod(from_g2o)
        mon._undo.append((M.Graph, "from_g2o", orig))


def pytest_sessionfinish(session, exitstatus):
    if not ENABLED or "ctx" not in _state:
        return
    _state["mon"].detach_all()
    ctx = _state["ctx"]
    res = ctx.result()
    res["monitored_calls"] = dict(_state["mon"].calls)
    res["pytest_exitstatus"] = int(exitstatus)
    out = os.environ.get("VF_PLUGIN_OUT")
    if out:
        with open(out, "w") as f:
            json.dump(res, f)
