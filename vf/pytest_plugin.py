"""pytest plugin: run the repository's own test-suite as a workload under the monitors.

Enabled with  GRAPHSLAM_VERIF=1  and  -p vf.pytest_plugin  (PYTHONPATH must contain /verif and the repository).
VF_PLUGIN_PROP selects the property whose monitors are attached (C01, C02, C09, C10, C11); VF_PLUGIN_OUT is the JSON file
that receives what the monitors observed.  A monitor that fires here is a witness to be read, never silenced.
"""
import json
import math
import os

import numpy as np

ENABLED = os.environ.get("GRAPHSLAM_VERIF") == "1"
_state = {}


def pytest_sessionstart(session):
    if not ENABLED:
        return
    from . import model as M, oracles as O, refmodel as R
    from .monitors import Monitor, first_n_then_every
    from .runner import Ctx

    prop = os.environ.get("VF_PLUGIN_PROP", "C01")
    ctx = Ctx(prop, "thorough", int(os.environ.get("VERIF_SEED", "0") or 0))
    mon = Monitor()
    _state.update(ctx=ctx, mon=mon, prop=prop)
    samp = first_n_then_every(400, 23)

    def attached(e):
        return e.vertices is not None and all(getattr(v, "pose", None) is not None and type(v.pose) in M.KIND_OF_CLS for v in e.vertices)

    def well_typed(e):
        try:
            return attached(e) and e.is_valid()
        except Exception:
            return False

    if prop == "C01":
        def after(args, kwargs, result, exc, token):
            e = args[0]
            if exc is None and well_typed(e):
                O.check_edge_jacobians(ctx, e, "repository-test-suite", fd=False)
        mon.attach(M.EdgeOdometry, "calc_jacobians", after=after, sample=samp)
        mon.attach(M.EdgeLandmark, "calc_jacobians", after=after, sample=samp)
    elif prop == "C02":
        def after(args, kwargs, result, exc, token):
            e = args[0]
            if exc is None and well_typed(e):
                O.check_edge_error(ctx, e, "repository-test-suite", chi2=True)
        mon.attach(M.EdgeOdometry, "calc_error", after=after, sample=samp)
        mon.attach(M.EdgeLandmark, "calc_error", after=after, sample=samp)
    elif prop in ("C09", "C11"):
        from .props import c09

        def dom(p):
            if isinstance(p, M.PoseSE3):
                return O.unit_defect(M.fl(p)) <= 64 * R.EPS
            return all(math.isfinite(x) for x in M.fl(p))

        for cls, k in ((M.PoseSE2, "se2"), (M.PoseSE3, "se3"), (M.PoseR2, "r2"), (M.PoseR3, "r3")):
            def after_add(args, kwargs, result, exc, token, k=k, cls=cls):
                a, b = args
                if exc is not None or type(a) is not cls or not dom(a):
                    return
                la = M.fl(a)
                if type(b) is cls and dom(b):
                    lb = M.fl(b)
                    if prop == "C09":
                        c09.pose_close(ctx, "oplus-vs-reference", k, result, R.oplus(k, la, lb), 1 + R.tmag(k, la) + R.tmag(k, lb), {"kind": k, "where": "repository-test-suite"},
                                       {"a": la, "b": lb})
                    elif k == "se2":
                        ctx.check("se2-angle-in-range", -math.pi <= float(result[2]) <= math.pi, {"op": "add", "where": "repository-test-suite"}, {"theta": float(result[2])})
                    elif k == "se3":
                        d = abs(float(np.linalg.norm(np.asarray(result)[3:])) - 1.0)
                        ctx.check("se3-unit-norm", d <= 64 * R.EPS, {"op": "add", "where": "repository-test-suite"}, {"defect": d})

            def after_sub(args, kwargs, result, exc, token, k=k, cls=cls):
                a, b = args
                if exc is not None or type(a) is not cls or type(b) is not cls or not (dom(a) and dom(b)):
                    return
                la, lb = M.fl(a), M.fl(b)
                if prop == "C09":
                    c09.pose_close(ctx, "ominus-vs-reference", k, result, R.ominus(k, la, lb), 1 + R.tmag(k, la) + R.tmag(k, lb), {"kind": k, "where": "repository-test-suite"},
                                   {"a": la, "b": lb})
                elif k == "se2":
                    ctx.check("se2-angle-in-range", -math.pi <= float(result[2]) <= math.pi, {"op": "sub", "where": "repository-test-suite"}, {"theta": float(result[2])})
                elif k == "se3":
                    d = abs(float(np.linalg.norm(np.asarray(result)[3:])) - 1.0)
                    ctx.check("se3-unit-norm", d <= 64 * R.EPS, {"op": "sub", "where": "repository-test-suite"}, {"defect": d})

            def after_inv(args, kwargs, result, exc, token, k=k, cls=cls):
                a = args[0]
                if exc is not None or type(a) is not cls or not dom(a):
                    return
                la = M.fl(a)
                if prop == "C09":
                    c09.pose_close(ctx, "inverse-two-sided", k, result, R.inv(k, la), 1 + R.tmag(k, la), {"kind": k, "where": "repository-test-suite", "side": "vs-reference"}, {"a": la})
                elif k == "se2":
                    ctx.check("se2-angle-in-range", -math.pi <= float(result[2]) <= math.pi, {"op": "inverse", "where": "repository-test-suite"}, {"theta": float(result[2])})

            mon.attach(cls, "__add__", after=after_add, sample=samp)
            mon.attach(cls, "__sub__", after=after_sub, sample=samp)
            mon.attach(cls, "inverse", after=after_inv, sample=samp)
    elif prop == "C10":
        def mk(name, cls, k):
            def after(args, kwargs, result, exc, token):
                a = args[0]
                if exc is not None or type(a) is not cls:
                    return
                J = np.asarray(result, dtype=float)
                n, c = R.FD[k], R.CD[k]
                rows = {"_compact": c}.get(name[-8:], None)
                if name == "jacobian_boxplus":
                    ok = J.shape == (n, c)
                elif "point_wrt_self" in name:
                    ok = J.shape == (R.FD[R.POINT_OF[k]], n)
                elif "point_wrt_point" in name:
                    ok = J.shape == (R.FD[R.POINT_OF[k]],) * 2
                else:
                    ok = J.shape == ((rows or n), n)
                ctx.check("shape", ok, {"kind": k, "method": name, "where": "repository-test-suite"}, {"shape": J.shape})
            return after
        from .props import c10

        for cls, k in ((M.PoseSE2, "se2"), (M.PoseSE3, "se3"), (M.PoseR2, "r2"), (M.PoseR3, "r3")):
            for name in c10.METHODS:
                mon.attach(cls, name, after=mk(name, cls, k), sample=samp)


def pytest_sessionfinish(session, exitstatus):
    if not ENABLED or "ctx" not in _state:
        return
    _state["mon"].detach_all()
    ctx = _state["ctx"]
    res = ctx.result()
    res["monitored_calls"] = dict(_state["mon"].calls)
    res["pytest_exitstatus"] = int(exitstatus)
    out = os.environ.get("VF_PLUGIN_OUT")
    if out:
        with open(out, "w") as f:
            json.dump(res, f)
