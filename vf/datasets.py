"""The two datasets shipped with the repository as realistic workloads (thorough tier).

The files are read with the *independent* tokenizer (vf.refmodel.parse_g2o_line), not with the loader under test, into plain
specs; SE(3) vertex quaternions are normalised (the files carry 6-digit quaternions that are unit only to ~1e-6, outside the
domain of the unit-quaternion properties).  Sub-graphs (first N poses and the edges among them) keep dense reference solves small.
"""
import math
import os

import numpy as np

from . import env, gen, refmodel as R

FILES = {"intel": "data/input_INTEL.g2o", "garage": "data/parking-garage.g2o"}


def path(name):
    return os.path.join(env.REPO, FILES[name])


def available(name):
    return os.path.exists(path(name))


def load_spec(name, max_vertices=None, normalize=True):
    verts, edges, params = [], [], {}
    with open(path(name)) as f:
        for line in f:
            r = R.parse_g2o_line(line.rstrip("\n"))
            if r is None or isinstance(r, tuple):
                continue
            if r["what"] == "vertex":
                p = gen.normalize_pose(r["kind"], r["pose"]) if normalize else list(r["pose"])
                verts.append({"id": r["id"], "kind": r["kind"], "pose": p, "fixed": False})
            elif r["what"] == "param":
                params[(r["tag"], r["id"])] = r
            elif r["type"] == "odo":
                est = gen.normalize_pose(r["kind"], r["est"]) if normalize else list(r["est"])
                edges.append({"type": "odo", "ids": r["ids"], "info": r["info"], "est": est, "est_kind": r["kind"]})
            else:
                kp = R.POINT_OF[r["kind"]]
                off = R.identity("se2") if r["kind"] == "se2" else list(params[("PARAMS_SE3OFFSET", r["off_id"])]["value"])
                edges.append({"type": "lm", "ids": r["ids"], "info": r["info"], "est": list(r["est"]), "est_kind": kp, "off": off, "off_kind": r["kind"], "off_id": r.get("off_id", 0)})
    if max_vertices is not None and len(verts) > max_vertices:
        keep = {v["id"] for v in verts[:max_vertices]}
        verts = verts[:max_vertices]
        edges = [e for e in edges if all(i in keep for i in e["ids"])]
    if verts:
        verts[0]["fixed"] = True
    return {"vertices": verts, "edges": edges, "dataset": name}


def augment_with_landmarks(rng, spec, n_landmarks=20, noise=0.02, cross_information=True):
    """Add synthetic landmarks observed (with rotated sensor offsets) from a few poses each, consistent with the current poses up to noise;
    optionally replace the (block-diagonal) information of the odometry edges by dense SPD matrices with cross terms."""
    s = gen.copy_spec(spec)
    poses = [v for v in s["vertices"] if v["kind"] in ("se2", "se3")]
    k = poses[0]["kind"]
    kp = R.POINT_OF[k]
    next_id = max(v["id"] for v in s["vertices"]) + 1
    for _ in range(n_landmarks):
        obs = [poses[int(j)] for j in rng.choice(len(poses), size=min(3, len(poses)), replace=False)]
        base = obs[0]["pose"]
        L = R.vals(R.act(k, base, [float(x) for x in rng.normal(size=R.CD[kp]) * 3.0]))
        s["vertices"].append({"id": next_id, "kind": kp, "pose": [x + rng.normal() * 0.1 for x in L], "fixed": False})
        for o in obs:
            off = gen.normalize_pose(k, gen.mild_pose(rng, k, 0.3))
            z = R.vals(R.act(k, R.inv(k, R.oplus(k, o["pose"], off)), L))
            s["edges"].append({"type": "lm", "ids": [o["id"], next_id], "info": gen.spd(rng, R.CD[kp], 20.0).tolist(), "est": [x + rng.normal() * noise for x in z], "est_kind": kp,
                               "off": off, "off_kind": k, "off_id": 0})
        next_id += 1
    if cross_information:
        for e in s["edges"]:
            if e["type"] == "odo":
                scale = float(np.mean(np.diag(np.array(e["info"]))))
                e["info"] = (gen.spd(rng, R.CD[k], 20.0, True) * max(scale, 1e-6) / 5.0).tolist()
    return s
