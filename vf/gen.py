"""Seeded generators of hostile values, graphs (as plain-data specs) and their transformations."""
import math

import numpy as np

from . import refmodel as R

PI = math.pi


def case_rng(seed, prop, shard, i):
    return np.random.default_rng([int(seed) & 0xFFFFFFFF, int(prop), int(shard), int(i)])


# --------------------------------------------------------------------------- #
# scalars
# --------------------------------------------------------------------------- #
def translation(rng, n, maxexp=4.0, cls=None):
    """n translation components; returns (list, class label)."""
    c = cls or rng.choice(["unit", "wide", "zero", "mixed", "tiny"], p=[0.35, 0.35, 0.05, 0.15, 0.10])
    if c == "unit":
        t = rng.normal(size=n) * 3.0
    elif c == "wide":
        t = rng.choice([-1.0, 1.0], size=n) * 10.0 ** rng.uniform(-3, maxexp, size=n)
    elif c == "zero":
        t = np.zeros(n)
    elif c == "tiny":
        t = rng.normal(size=n) * 1e-3
    else:
        t = rng.normal(size=n) * 3.0
        t[rng.integers(n)] = 0.0
        if rng.random() < 0.5:
            t[rng.integers(n)] = rng.choice([-1.0, 1.0]) * 10.0 ** rng.uniform(0, maxexp)
    return [float(x) for x in t], str(c)


def angle(rng, cls=None, big=1e6):
    """One angle; returns (value, class label).  Never of the form -pi + 2*pi*u."""
    c = cls or rng.choice(["generic", "nearpi_in", "nearpi_out", "exact", "shifted", "huge", "small"],
                          p=[0.40, 0.12, 0.08, 0.10, 0.12, 0.08, 0.10])
    if c == "generic":
        a = rng.normal() * 1.7
        a = math.copysign(min(abs(a), 3.1), a)
    elif c == "nearpi_in":
        a = rng.choice([-1.0, 1.0]) * (PI - 10.0 ** rng.uniform(-15, -1))
    elif c == "nearpi_out":
        a = rng.choice([-1.0, 1.0]) * (PI + 10.0 ** rng.uniform(-15, -1))
    elif c == "exact":
        a = float(rng.choice([0.0, 0.0, 0.0, -0.0, PI, -PI, PI / 2, -PI / 2, math.nextafter(PI, 0.0), math.nextafter(-PI, 0.0),
                              math.nextafter(PI, 10.0), math.nextafter(-PI, -10.0), R.TWO_PI, -R.TWO_PI]))
    elif c == "shifted":
        a = rng.normal() * 1.5 + R.TWO_PI * int(rng.integers(-1000, 1000))
    elif c == "huge":
        a = rng.choice([-1.0, 1.0]) * 10.0 ** rng.uniform(1, math.log10(big))
    else:
        a = rng.normal() * 1e-6
    return float(a), str(c)


def in_range_angle(rng, cls=None):
    a, c = angle(rng, cls or rng.choice(["generic", "nearpi_in", "exact", "small"], p=[0.55, 0.2, 0.1, 0.15]))
    if a > PI:
        a = PI
    if a < -PI:
        a = -PI
    return a, c


def unit_quat(rng, cls=None):
    """A unit quaternion (x,y,z,w), |norm-1| <= 2 eps; returns (list, class label)."""
    c = cls or rng.choice(["uniform", "wneg", "wzero", "axis180", "identity", "nearid", "negid", "near180", "single_axis"],
                          p=[0.27, 0.22, 0.09, 0.07, 0.05, 0.09, 0.04, 0.07, 0.10])
    if c == "uniform":
        q = rng.normal(size=4)
    elif c == "wneg":
        q = rng.normal(size=4)
        q[3] = -abs(q[3])
    elif c == "wzero":
        q = np.append(rng.normal(size=3), 0.0)
    elif c == "axis180":
        q = np.zeros(4)
        q[rng.integers(3)] = rng.choice([-1.0, 1.0])
    elif c == "single_axis":
        # a rotation about one coordinate axis (pure yaw / pitch / roll): two vector components exactly zero, either sign of w
        a = rng.uniform(-PI, PI) * 2
        q = np.zeros(4)
        q[rng.integers(3)] = math.sin(a / 2)
        q[3] = math.cos(a / 2)
    elif c == "identity":
        q = np.array([0.0, 0.0, 0.0, 1.0])
    elif c == "negid":
        q = np.array([0.0, 0.0, 0.0, -1.0])
    elif c == "nearid":
        v = rng.normal(size=3)
        v *= 10.0 ** rng.uniform(-9, -2) / np.linalg.norm(v)
        q = np.append(v, rng.choice([-1.0, 1.0]) * math.sqrt(max(0.0, 1.0 - v @ v)))
    else:  # near180
        v = rng.normal(size=3)
        v /= np.linalg.norm(v)
        w = rng.choice([-1.0, 1.0]) * 10.0 ** rng.uniform(-12, -3)
        q = np.append(v * math.sqrt(1 - w * w), w)
    q = q / np.linalg.norm(q)
    q = q / np.linalg.norm(q)
    return [float(x) for x in q], str(c)


def small_quat(rng, mag):
    ax = rng.normal(size=3)
    ax /= np.linalg.norm(ax)
    a = rng.normal() * mag
    q = np.append(ax * math.sin(a / 2), math.cos(a / 2))
    q /= np.linalg.norm(q)
    return [float(x) for x in q]


def pose(rng, k, maxexp=4.0, classes=None):
    """A hostile pose of kind k; returns (list, set of class labels)."""
    labels = set()
    nt = {"r2": 2, "r3": 3, "se2": 2, "se3": 3}[k]
    t, c = translation(rng, nt, maxexp)
    labels.add("t:" + c)
    if k == "se2":
        a, c = angle(rng)
        labels.add("a:" + c)
        return t + [a], labels
    if k == "se3":
        q, c = unit_quat(rng)
        labels.add("q:" + c)
        return t + q, labels
    return t, labels


def mild_pose(rng, k, scale=5.0):
    if k == "r2":
        return [float(x) for x in rng.normal(size=2) * scale]
    if k == "r3":
        return [float(x) for x in rng.normal(size=3) * scale]
    if k == "se2":
        return [float(x) for x in rng.normal(size=2) * scale] + [float(rng.uniform(-3.1, 3.1))]
    q = rng.normal(size=4)
    q /= np.linalg.norm(q)
    return [float(x) for x in rng.normal(size=3) * scale] + [float(x) for x in q]


def spd(rng, n, cond=10.0, cross=True, scale=1.0):
    A = rng.normal(size=(n, n))
    Q, _ = np.linalg.qr(A)
    ev = np.exp(rng.uniform(0, math.log(max(cond, 1.0000001)), n))
    M = Q @ np.diag(ev) @ Q.T
    if not cross and n == 6:
        M[:3, 3:] = 0
        M[3:, :3] = 0
    if not cross and n == 3:
        M[:2, 2] = 0
        M[2, :2] = 0
    M = (M + M.T) / 2 * scale
    return M


def sparse_pattern(rng, n):
    """A symmetric positive *semi*-definite information matrix with exact zeros in a pattern: unconstrained axes (zero rows), independent axes and small
    dense blocks (a planar robot in a 3-D graph: x-y correlated, z and yaw independent, roll/pitch unconstrained), or off-diagonal entries that cancel in sum.
    Returns (matrix, label)."""
    if n >= 3 and rng.random() < 0.3:
        d = 10.0 ** rng.uniform(0, 2, size=n)
        A = np.diag(d)
        i, j, k = [int(x) for x in rng.choice(n, 3, replace=False)]
        a = float(rng.uniform(0.05, 0.4)) * float(min(d[i], d[j], d[k]))
        A[i, j] = A[j, i] = a
        A[i, k] = A[k, i] = -a
        return A, "offdiagonals_cancel_in_sum"
    axes = [int(x) for x in rng.permutation(n)]
    A = np.zeros((n, n))
    n_zero = int(rng.integers(0, n)) if n > 1 else 0
    rest = axes[n_zero:]
    while rest:
        g = int(rng.integers(1, min(3, len(rest)) + 1))
        grp, rest = rest[:g], rest[g:]
        B = spd(rng, g, 10.0) * float(10 ** rng.uniform(-1, 2)) if g > 1 else np.array([[float(10 ** rng.uniform(-1, 2))]])
        A[np.ix_(grp, grp)] = B
    return A, "zero_rows_and_blocks" if n_zero else "independent_blocks"


def sparsify_information(rng, edges, share=0.5):
    """Replace the information of about `share` of the edges by sparse_pattern matrices (the graph may become ill-posed: callers skip on cond)."""
    labs = set()
    for e in edges:
        if rng.random() < share:
            A, lab = sparse_pattern(rng, len(e["info"]))
            e["info"] = A.tolist()
            labs.add(lab)
    return labs


def structure_information(rng, edges):
    """Replace the (dense) information of a graph's edges by exactly structured matrices, as most datasets carry them: identity, c I, exactly
    diagonal (positive: the problem stays well-posed).  Returns the mode label."""
    mode = str(rng.choice(["identity", "scaled_identity", "diagonal", "mixed"]))
    for e in edges:
        A = np.array(e["info"], dtype=float)
        n = A.shape[0]
        m = mode if mode != "mixed" else str(rng.choice(["identity", "scaled_identity", "diagonal", "keep"]))
        if m == "identity":
            A = np.eye(n)
        elif m == "scaled_identity":
            A = np.eye(n) * float(rng.choice([0.5, 2.0, 10.0, 100.0]))
        elif m == "diagonal":
            A = np.diag(np.diag(A))
        e["info"] = A.tolist()
    return mode


def info(rng, n, maxcond=1e3, scale_exp=0.0, cross=None, psd=False, extreme_scale=False):
    """Information matrix; returns (ndarray, labels)."""
    labels = set()
    cross = (rng.random() < 0.6) if cross is None else cross
    cond = 10.0 ** rng.uniform(0, math.log10(maxcond))
    sc = 10.0 ** rng.uniform(-scale_exp, scale_exp) if scale_exp else 1.0
    if extreme_scale:
        u = rng.random()
        if u < 0.15:
            sc = 10.0 ** rng.uniform(-14, -7)
            labels.add("info:tiny_scale")
        elif u < 0.25:
            sc = 10.0 ** rng.uniform(6, 12)
            labels.add("info:huge_scale")
    M = spd(rng, n, cond, cross, sc)
    u2 = rng.random()
    if u2 < 0.12:
        # exactly structured matrices (what most datasets carry): identity, c I, exactly diagonal
        st = str(rng.choice(["identity", "scaled_identity", "diagonal", "diagonal_integers"]))
        if st == "identity":
            M = np.eye(n)
        elif st == "scaled_identity":
            M = np.eye(n) * float(rng.choice([0.5, 2.0, 10.0, 100.0, 1e-3, float(10 ** rng.uniform(-2, 3))])) * sc
        elif st == "diagonal":
            M = np.diag(10.0 ** rng.uniform(-1, 3, size=n)) * sc
        else:
            M = np.diag(rng.integers(1, 1000, size=n).astype(float))
        labels.add("info:exactly_" + st)
        cross = False
        if psd and n > 1 and rng.random() < 0.5:
            M = M.copy()
            M[int(rng.integers(n)), :] = 0.0
            M = np.diag(np.diag(M))
            labels.add("info:diagonal_with_a_zero_row")
            labels.add("info:cross" if cross and n >= 3 else "info:blockdiag")
            return M, labels
    if psd and n > 1 and rng.random() < 0.5:
        M, lab = sparse_pattern(rng, n)
        M = M * sc
        labels.add("info:singular")
        labels.add("info:sparse:" + lab)
        labels.add("info:cross" if has_cross(M) else "info:blockdiag")
        return M, labels
    if psd and n > 1:
        v = rng.normal(size=n)
        v /= np.linalg.norm(v)
        P = np.eye(n) - np.outer(v, v)
        M = P @ M @ P
        M = (M + M.T) / 2
        labels.add("info:singular")
    labels.add("info:cross" if cross and n >= 3 else "info:blockdiag")
    if cond > 100:
        labels.add("info:illcond")
    return M, labels


def has_cross(M):
    M = np.asarray(M)
    n = M.shape[0]
    if n == 6:
        return bool(np.abs(M[:3, 3:]).max() > 0)
    if n == 3:
        return bool(np.abs(M[:2, 2]).max() > 0)
    return False


def vertex_id(rng, used, cls=None):
    c = cls or rng.choice(["small", "negative", "sparse", "huge62", "huge64"], p=[0.5, 0.15, 0.2, 0.1, 0.05])
    while True:
        if c == "small":
            v = int(rng.integers(0, 200))
        elif c == "negative":
            v = -int(rng.integers(1, 10000))
        elif c == "sparse":
            v = int(rng.integers(0, 10 ** 9))
        elif c == "huge62":
            v = int(rng.choice([-1, 1])) * (2 ** 62 + int(rng.integers(0, 1000)))
        else:
            v = 2 ** 64 + int(rng.integers(0, 10 ** 6))
        if v not in used:
            used.add(v)
            return v, str(c)


# --------------------------------------------------------------------------- #
# perturbation
# --------------------------------------------------------------------------- #
def coincide(rng, k, p, q):
    """Return a copy of pose q (kind k) that coincides with pose p (same kind) in part - the values, not the objects: the same orientation at
    another position (a vehicle driving straight; every vertex after a world rotation), the same position, one shared coordinate (a planar robot
    in 3-D: same z), or all numbers equal.  Returns (q', label)."""
    nt = {"r2": 2, "r3": 3, "se2": 2, "se3": 3}[k]
    q = list(q)
    opts = ["same_position", "one_shared_coordinate", "all_equal"] + (["same_orientation"] if k in ("se2", "se3") else [])
    how = str(rng.choice(opts))
    if how == "same_orientation":
        q[nt:] = p[nt:]
    elif how == "same_position":
        q[:nt] = p[:nt]
    elif how == "one_shared_coordinate":
        j = int(rng.integers(nt))
        q[j] = p[j]
    else:
        q = list(p)
    return q, how


def perturb(rng, k, p, tm, rm):
    """Right-perturb pose p (list of floats) by Gaussian noise of given translation/rotation sigma."""
    if k in ("r2", "r3"):
        return [x + rng.normal() * tm for x in p]
    if k == "se2":
        d = [rng.normal() * tm, rng.normal() * tm, rng.normal() * rm]
        return R.vals(R.se2_oplus(p, d))
    d = [rng.normal() * tm for _ in range(3)] + small_quat(rng, rm)
    out = R.vals(R.se3_oplus(p, d))
    q = np.array(out[3:])
    q /= np.linalg.norm(q)
    return out[:3] + [float(x) for x in q]


def normalize_pose(k, p):
    if k == "se3":
        q = np.array(p[3:], dtype=float)
        q /= np.linalg.norm(q)
        q /= np.linalg.norm(q)
        return [float(x) for x in p[:3]] + [float(x) for x in q]
    return [float(x) for x in p]


# --------------------------------------------------------------------------- #
# consistent trajectory graphs (C05, C07, C08, C12, C16 ...)
# --------------------------------------------------------------------------- #
def trajectory_graph(rng, k, n, n_loops=0, n_lm=0, meas_t=0.0, meas_r=0.0, init_t=0.0, init_r=0.0,
                     cond=10.0, cross=True, step=1.0, scale=5.0, lm_offsets=True, start=None, uturn=0.0, straight_init=False, share_landmark_guess=False, lm_init=None, q_signs=False):
    """Ground-truth trajectory of n poses of kind k + odometry / loop / landmark measurements.
    Returns a spec (vertices hold the perturbed initial guess) with extra keys 'truth'."""
    kp = R.POINT_OF[k]
    cd = R.CD[k]
    truth = [list(start) if start is not None else R.identity(k)]
    for _ in range(1, n):
        if k in ("r2", "r3"):
            sv = [float(x) for x in rng.normal(size=cd) * step]
        elif k == "se2":
            sv = [step + rng.normal() * 0.1, rng.normal() * 0.1, float(rng.uniform(-0.6, 0.6))]
            if uturn and rng.random() < uturn:
                sv[2] = float(rng.choice([-1.0, 1.0]) * (PI - abs(rng.normal()) * 0.02))
        else:
            sv = [step + rng.normal() * 0.1, rng.normal() * 0.1, rng.normal() * 0.1] + small_quat(rng, 0.35)
            if uturn and rng.random() < uturn:
                # a U-turn: rotation by pi +- a little about a random axis (relative quaternion with w ~ 0 of either sign)
                ax = rng.normal(size=3)
                ax /= np.linalg.norm(ax)
                a = PI + rng.normal() * 0.02
                q = np.append(ax * math.sin(a / 2), math.cos(a / 2))
                sv = sv[:3] + [float(x) for x in q / np.linalg.norm(q)]
        truth.append(normalize_pose(k, R.vals(R.oplus(k, truth[-1], sv))))
    pairs = [(i, i + 1) for i in range(n - 1)]
    for _ in range(n_loops):
        i, j = rng.choice(n, 2, replace=False)
        pairs.append((int(i), int(j)))
    edges = []
    for (i, j) in pairs:
        z = R.vals(R.ominus(k, truth[j], truth[i]))
        z = perturb(rng, k, z, meas_t, meas_r) if (meas_t or meas_r) else normalize_pose(k, z)
        if k == "se2":
            z[2] = R.val(R.wrap(z[2]))
        edges.append({"type": "odo", "ids": [i, j], "info": spd(rng, cd, cond, cross).tolist(), "est": z, "est_kind": k})
    lms = []
    for m in range(n_lm):
        L = [float(x) for x in rng.normal(size=R.CD[kp]) * scale]
        lms.append(L)
        obs = rng.choice(n, size=min(n, 3), replace=False)
        for i in obs:
            off = (mild_pose(rng, k, 0.3) if lm_offsets else R.identity(k))
            if lm_offsets and k in ("se2", "se3") and rng.random() < 0.25:
                # a sensor frame at the body origin: exactly zero lever arm, rotated (or, sometimes, the exact identity)
                nt0 = 2 if k == "se2" else 3
                off = [0.0] * nt0 + (off[nt0:] if rng.random() < 0.8 else R.identity(k)[nt0:])
            z = R.vals(R.act(k, R.inv(k, R.oplus(k, truth[int(i)], off)), L))
            z = [x + rng.normal() * meas_t for x in z]
            edges.append({"type": "lm", "ids": [int(i), n + m], "info": spd(rng, R.CD[kp], cond).tolist(), "est": z,
                          "est_kind": kp, "off": off, "off_kind": k, "off_id": 0})
    init = [perturb(rng, k, t, init_t, init_r) if (init_t or init_r) else list(t) for t in truth]
    init[0] = list(truth[0])
    if straight_init:
        # the textbook initial guess: poses on a line, headings exactly zero / identity quaternions, exact zeros in y (z)
        for j in range(1, n):
            if k == "se2":
                init[j] = [float(j) * step, 0.0, 0.0]
            elif k == "se3":
                init[j] = [float(j) * step, 0.0, 0.0, 0.0, 0.0, 0.0, 1.0]
            else:
                init[j] = [float(j) * step] + [0.0] * (cd - 1)
    linit = [[x + rng.normal() * (lm_init if lm_init is not None else init_t) for x in L] for L in lms]
    share = None
    if share_landmark_guess and len(lms) >= 2:
        # all landmarks start from one common guess held in one pose object (landmarks enter linearly, any guess is fine)
        c0 = [float(np.mean([L[j] for L in lms])) for j in range(len(lms[0]))]
        linit = [list(c0) for _ in lms]
        share = [[n + m for m in range(len(lms))]]
    if q_signs and k == "se3":
        # the same rotations written with the antipodal quaternion (any unit quaternion is a legal representation)
        init = [p[:3] + [-x for x in p[3:]] if rng.random() < 0.4 else p for p in init]
        for e in edges:
            if e["est_kind"] == "se3" and rng.random() < 0.4:
                e["est"] = e["est"][:3] + [-x for x in e["est"][3:]]
            if e.get("off_kind") == "se3" and rng.random() < 0.4:
                e["off"] = e["off"][:3] + [-x for x in e["off"][3:]]
    vertices = [{"id": i, "kind": k, "pose": p, "fixed": i == 0} for i, p in enumerate(init)]
    vertices += [{"id": n + m, "kind": kp, "pose": p, "fixed": False} for m, p in enumerate(linit)]
    if cross is not True and rng.random() < 0.15:
        structure_information(rng, edges)
    out = {"vertices": vertices, "edges": edges, "truth": truth + lms}
    if share:
        out["share"] = share
        out["share_mode"] = str(rng.choice(["object", "array"]))
    return out


# --------------------------------------------------------------------------- #
# hostile structure (C03, C06, C08, C18 ...)
# --------------------------------------------------------------------------- #
def copy_spec(spec):
    import copy

    return copy.deepcopy(spec)


def relabel(spec, mapping):
    s = copy_spec(spec)
    for v in s["vertices"]:
        v["id"] = mapping[v["id"]]
    for e in s["edges"]:
        e["ids"] = [mapping[i] for i in e["ids"]]
    return s


def spec_fingerprint(spec):
    import hashlib
    import json

    def rnd(x):
        if isinstance(x, float):
            return float("%.9g" % x) if math.isfinite(x) else str(x)
        if isinstance(x, (list, tuple)):
            return [rnd(y) for y in x]
        if isinstance(x, dict):
            return {k: rnd(v) for k, v in x.items() if k not in ("truth", "truth_by_id")}
        if isinstance(x, np.ndarray):
            return rnd(x.tolist())
        if isinstance(x, (np.floating,)):
            return rnd(float(x))
        if isinstance(x, (np.integer,)):
            return int(x)
        return x

    return hashlib.blake2b(json.dumps(rnd(spec), sort_keys=True, default=str).encode(), digest_size=8).hexdigest()


def fingerprint(obj):
    return spec_fingerprint(obj)


# --------------------------------------------------------------------------- #
# cluster graphs: hostile *structure* (multi-edges, reversed edges, mixed dimensions, custom edges,
# shuffled vertex lists, weird ids, several fixed vertices) with mild values, well-posed by construction
# --------------------------------------------------------------------------- #
def cluster_graph(rng, kinds=None, size=(2, 6), noise_t=0.05, noise_r=0.03, init_t=0.2, init_r=0.1, cond=100.0,
                  custom=True, landmarks=True, multi=True, reverse=True, shuffle=True, weird_ids=True,
                  extra_fixed=True, numeric_custom=None, scale=4.0, cross=None, fix_mode=None, alias=False, special=False, wide_info=False):
    """Returns (spec, labels).  Every cluster (= connected component before landmark links) holds one fixed vertex,
    unless fix_mode == 'first' (then only the first listed vertex is fixed and there is a single pose cluster)."""
    labels = set()
    if kinds is None:
        fam = rng.choice(["single", "2d", "3d", "all"], p=[0.35, 0.25, 0.2, 0.2])
        if fam == "single":
            kinds = [str(rng.choice(R.KINDS))]
        elif fam == "2d":
            kinds = ["se2", "r2"] if rng.random() < 0.7 else ["se2", "se2"]
        elif fam == "3d":
            kinds = ["se3", "r3"] if rng.random() < 0.7 else ["se3", "se3"]
        else:
            kinds = [str(x) for x in rng.permutation(list(R.KINDS))[: int(rng.integers(2, 5))]]
    if len(set(kinds)) > 1:
        labels.add("mixed_dimensions")
    used = set()
    vertices = []
    truth = {}
    edges = []
    next_id = [0]

    def new_id():
        if weird_ids:
            v, c = vertex_id(rng, used)
            labels.add("id:" + c)
            return v
        next_id[0] += 1
        used.add(next_id[0])
        return next_id[0]

    def cr():
        return (rng.random() < 0.6) if cross is None else cross

    def odo(k, a, b):
        z = R.vals(R.ominus(k, truth[b], truth[a]))
        z = perturb(rng, k, z, noise_t, noise_r)
        if k == "se2":
            z[2] = R.val(R.wrap(z[2]))
        return {"type": "odo", "ids": [a, b], "info": spd(rng, R.CD[k], cond, cr()).tolist(), "est": z, "est_kind": k}

    clusters = []
    for k in kinds:
        n = int(rng.integers(size[0], size[1] + 1))
        ids = []
        for j in range(n):
            vid = new_id()
            t = mild_pose(rng, k, scale)
            truth[vid] = t
            ids.append(vid)
            vertices.append({"id": vid, "kind": k, "pose": perturb(rng, k, t, init_t, init_r), "fixed": False})
        clusters.append((k, ids))
        # spanning tree of odometry edges, random orientation
        for j in range(1, n):
            a = ids[int(rng.integers(0, j))]
            b = ids[j]
            if reverse and rng.random() < 0.5:
                a, b = b, a
            edges.append(odo(k, a, b))
        # extra edges: loops and parallel edges
        for _ in range(int(rng.integers(0, 3))):
            if n < 2:
                break
            a, b = [ids[int(x)] for x in rng.choice(n, 2, replace=False)]
            edges.append(odo(k, a, b))
        if multi and n >= 2 and rng.random() < 0.6:
            e0 = edges[int(rng.integers(len(edges)))]
            if e0["type"] == "odo":
                for _ in range(int(rng.integers(1, 4))):
                    a, b = e0["ids"]
                    if reverse and rng.random() < 0.5:
                        a, b = b, a
                    kk = e0["est_kind"]
                    edges.append(odo(kk, a, b))
                    labels.add("parallel_edges")
    # landmarks observed from pose clusters
    if landmarks:
        for (k, ids) in list(clusters):
            if rng.random() < 0.6:
                kp = R.POINT_OF[k]
                for _ in range(int(rng.integers(1, 3))):
                    lid = new_id()
                    L = mild_pose(rng, kp, scale)
                    truth[lid] = L
                    vertices.append({"id": lid, "kind": kp, "pose": [x + rng.normal() * init_t for x in L], "fixed": False})
                    nobs = int(rng.integers(1, min(3, len(ids)) + 1))
                    for a in rng.choice(len(ids), nobs, replace=False):
                        a = ids[int(a)]
                        off = mild_pose(rng, k, 0.5) if rng.random() < 0.8 else R.identity(k)
                        if k in ("se2", "se3") and rng.random() < 0.2:
                            nt0 = 2 if k == "se2" else 3
                            off = [0.0] * nt0 + off[nt0:]
                            labels.add("landmark_offset_zero_translation_rotated")
                        z = R.vals(R.act(k, R.inv(k, R.oplus(k, truth[a], off)), L))
                        z = [x + rng.normal() * noise_t for x in z]
                        edges.append({"type": "lm", "ids": [a, lid], "info": spd(rng, R.CD[kp], cond).tolist(), "est": z, "est_kind": kp,
                                      "off": off, "off_kind": k, "off_id": 0})
                        labels.add("landmark_edges")
                        if k in ("se2", "se3") and off != R.identity(k):
                            labels.add("landmark_offset_rotated")
    # custom edges
    if custom:
        for (k, ids) in clusters:
            n = len(ids)
            for _ in range(int(rng.integers(0, 3))):
                numeric = bool(rng.random() < 0.5) if numeric_custom is None else numeric_custom
                c = rng.choice(["prior", "posprior", "distance", "relpose", "midpoint", "constvel"])
                nt = {"r2": 2, "r3": 3, "se2": 2, "se3": 3}[k]
                if c == "prior":
                    a = ids[int(rng.integers(n))]
                    z = perturb(rng, k, truth[a], noise_t, noise_r)
                    edges.append({"type": "custom:prior", "ids": [a], "info": spd(rng, R.CD[k], cond, cr()).tolist(), "est": z, "est_kind": k, "numeric": numeric})
                    labels.add("custom_unary")
                elif c == "posprior":
                    a = ids[int(rng.integers(n))]
                    z = [x + rng.normal() * noise_t for x in truth[a][:nt]]
                    edges.append({"type": "custom:posprior", "ids": [a], "info": spd(rng, nt, cond).tolist(), "est": z, "est_kind": "array", "numeric": numeric})
                    labels.add("custom_unary")
                elif c == "distance" and n >= 2:
                    a, b = [ids[int(x)] for x in rng.choice(n, 2, replace=False)]
                    d = math.sqrt(sum((x - y) ** 2 for x, y in zip(truth[a][:nt], truth[b][:nt]))) + rng.normal() * noise_t
                    if d > 0.2:
                        edges.append({"type": "custom:distance", "ids": [a, b], "info": [[float(10.0 ** rng.uniform(-1, 2))]], "est": [d], "est_kind": "scalar", "numeric": numeric})
                        labels.add("custom_binary")
                elif c == "relpose" and n >= 2:
                    a, b = [ids[int(x)] for x in rng.choice(n, 2, replace=False)]
                    e0 = odo(k, a, b)
                    e0.update({"type": "custom:relpose", "numeric": numeric})
                    edges.append(e0)
                    labels.add("custom_binary")
                elif c == "midpoint" and n >= 3:
                    a, b, c3 = [ids[int(x)] for x in rng.choice(n, 3, replace=False)]
                    z = [truth[b][i] - 0.5 * (truth[a][i] + truth[c3][i]) + rng.normal() * noise_t for i in range(nt)]
                    edges.append({"type": "custom:midpoint", "ids": [a, b, c3], "info": spd(rng, nt, cond).tolist(), "est": z, "est_kind": "array", "numeric": numeric})
                    labels.add("custom_ternary")
                elif c == "constvel" and n >= 3:
                    a, b, c3 = [ids[int(x)] for x in rng.choice(n, 3, replace=False)]
                    ab = R.ominus(k, truth[b], truth[a])
                    bc = R.ominus(k, truth[c3], truth[b])
                    cc = R.vals(R.compact(k, R.ominus(k, ab, bc)))
                    z = [x + rng.normal() * noise_t * 0.2 for x in cc]
                    if k == "se3" and R.val(R.ominus(k, ab, bc)[6]) < 0.3:
                        continue
                    if k == "se2" and abs(cc[2]) > 2.5:
                        continue
                    edges.append({"type": "custom:constvel", "ids": [a, b, c3], "info": spd(rng, R.CD[k], cond, cr()).tolist(), "est": z, "est_kind": "array", "numeric": numeric})
                    labels.add("custom_ternary")
                if numeric:
                    labels.add("custom_numeric_jacobian")
    # fixed vertices
    vmap = {v["id"]: v for v in vertices}
    if fix_mode == "first":
        pass
    elif fix_mode == "none_prior":
        # no fixed vertex at all: every cluster is anchored by a unary pose prior instead (well-posed without any fixed flag)
        for (k, ids) in clusters:
            a = ids[int(rng.integers(len(ids)))]
            edges.append({"type": "custom:prior", "ids": [a], "info": spd(rng, R.CD[k], 10.0, cr()).tolist(), "est": perturb(rng, k, truth[a], noise_t, noise_r), "est_kind": k,
                          "numeric": False})
        labels.add("no_fixed_vertex_prior_anchored")
    else:
        for (k, ids) in clusters:
            vmap[ids[int(rng.integers(len(ids)))]]["fixed"] = True
        if extra_fixed and rng.random() < 0.5:
            for v in vertices:
                if rng.random() < 0.2:
                    v["fixed"] = True
            labels.add("several_fixed_per_cluster")
    if special:
        for v in vertices:
            if rng.random() < 0.3:
                kk = v["kind"]
                c = rng.integers(3)
                if kk == "se2":
                    v["pose"][2] = [0.0, PI / 2, -PI / 2][c]
                elif kk == "se3":
                    v["pose"] = v["pose"][:3] + [[0.0, 0.0, 0.0, 1.0], [1.0, 0.0, 0.0, 0.0], [0.0, 0.0, 0.0, -1.0]][c]
                else:
                    v["pose"][int(rng.integers(len(v["pose"])))] = 0.0
                labels.add("exact_special_values")
    share = []
    if alias:
        # some vertices of one cluster start from the same initial pose and share its storage (object or numpy array)
        for (k, ids) in clusters:
            if len(ids) >= 2 and rng.random() < 0.7:
                grp = [ids[int(x)] for x in rng.choice(len(ids), int(rng.integers(2, min(3, len(ids)) + 1)), replace=False)]
                for vid in grp[1:]:
                    vmap[vid]["pose"] = list(vmap[grp[0]]["pose"])
                share.append(grp)
        if share:
            labels.add("shared_pose_storage")
    if shuffle:
        perm = rng.permutation(len(vertices))
        vertices = [vertices[int(i)] for i in perm]
        eperm = rng.permutation(len(edges))
        edges = [edges[int(i)] for i in eperm]
        labels.add("shuffled_lists")
    if fix_mode == "first":
        # the first *listed* vertex must belong to the (single) pose cluster for well-posedness
        k0, ids0 = clusters[0]
        j = next(i for i, v in enumerate(vertices) if v["id"] in ids0)
        vertices[0], vertices[j] = vertices[j], vertices[0]
    if wide_info:
        # edges of wildly different weight in one graph (a laser-grade constraint next to a guess), or all information tiny / huge
        mode = str(rng.choice(["per_edge", "all_tiny", "all_huge"]))
        g0 = float(10 ** rng.uniform(-12, -7)) if mode == "all_tiny" else float(10 ** rng.uniform(5, 9)) if mode == "all_huge" else 1.0
        for e in edges:
            sc = g0 * (float(10 ** rng.uniform(-5, 5)) if mode == "per_edge" else 1.0)
            e["info"] = (np.array(e["info"]) * sc).tolist()
        labels.add("information_scales:" + mode)
    if cross is not True and rng.random() < 0.15:
        labels.add("information_exactly_structured:" + structure_information(rng, edges))
    if rng.random() < 0.15:
        # fixed flags given as 0/1 integers (the repository's own tests do this) - truthiness is what counts
        for v in vertices:
            v["fixed"] = int(bool(v["fixed"]))
        labels.add("fixed_flags_as_int")
    spec = {"vertices": vertices, "edges": edges, "truth_by_id": {str(k): v for k, v in truth.items()}}
    if rng.random() < 0.12:
        spec["np_ids"] = True
        labels.add("ids_as_numpy_int64")
    if rng.random() < 0.12:
        spec["prebind_stale"] = True
        labels.add("edges_prebound_to_stale_vertices")
    if share:
        spec["share"] = share
        spec["share_mode"] = str(rng.choice(["object", "array"]))
    # label: edges naming their vertices high-index-first (w.r.t. list order)
    pos = {v["id"]: i for i, v in enumerate(vertices)}
    nrev = sum(1 for e in edges if len(e["ids"]) >= 2 and pos[e["ids"][0]] > pos[e["ids"][1]])
    if nrev:
        labels.add("edge_high_index_first")
    return spec, labels
