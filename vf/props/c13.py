"""C13 - .g2o export followed by import is lossless.

Events: the file written by the real Graph.to_g2o (scratch directory, removed afterwards), the graph returned by the real
Graph.from_g2o, for 1..5 consecutive cycles.
Oracle: element-wise comparison of the reloaded graph with the original (bit-identical numbers; SE(2) angles modulo 2 pi within
4 eps pi per cycle; SE(3) measurement quaternions up to renormalisation and sign; chi2 within the C02 bound); the file is
re-tokenised by an independent tokenizer and must carry exactly the live numbers; inexpressible content must raise at export.
"""
import math
import os
import shutil
import tempfile

import numpy as np

from .. import gen, model as M, oracles as O, refmodel as R
from ..runner import Skip

RULE = ("cases from rng(seed, 13, 0, i): graphs of SE(2)/SE(3) poses and R^2/R^3 landmarks (2-D, 3-D or both in one file) with odometry edges, SE(2)->R^2 landmark edges "
        "(identity offset), SE(3)->R^3 landmark edges referencing registered PARAMS_SE3OFFSET (rotated offsets, w<0), PARAMS_SE2OFFSET entries; values from hostile classes "
        "incl. 1e-300..1e300, subnormals, negative / 2^62 / 2^64 ids, w<0 quaternions, dense information; 1..5 export/import cycles (sometimes with in-place edits of the loaded graph between cycles; sometimes an edge listed twice; the first written file is also read with registered edge types that recognise built-in lines (EdgeOdometry itself / a subclass, listed once or twice): still one edge per line). pinned: files of exactly 999/1000/1001/1024/2000/4096/8192 lines. every 6th case checks that inexpressible "
        "content (R^n odometry, R^n->R^n landmark edges, SE(2) landmark edge with a non-identity - also tiny - offset, SE(3) landmark edge whose offset id is None (also while a different offset is registered under id 0) / unregistered) is refused with an error at export or import instead of silently becoming a different graph. distinct = spec fingerprint; non-trivial = >= 2 edges and "
        ">= 1 non-integer value."
        " later additions: parameter id 0, parameter table compared with the built values, exports under hostile numpy print options, re-import after editing an earlier import.")
REQ = ["class:numpy_print_options_set_by_the_application", "class:reimport_after_editing_an_earlier_import", "class:reimport_with_registered_types_that_parse_builtin_lines", "class:file_of_exactly_1000_lines", "refusal_variant:lm_se3_offset_id_none_param0", "eval:roundtrip-structure", "eval:roundtrip-vertex-poses", "eval:roundtrip-edge-measurements", "eval:roundtrip-information", "eval:roundtrip-offsets", "eval:roundtrip-chi2",
       "eval:file-tokens-exact", "eval:element-level-roundtrip", "eval:inexpressible-content-refused", "class:family:2d", "class:family:3d", "class:family:both", "class:extreme_values", "class:meas_quat_wneg",
       "class:offset_rotated", "class:cycles>1", "class:huge_ids", "class:identical_parallel_edges", "class:edited_in_place_between_cycles"]
PLAN = {
    "quick": {"cases": 1500, "soft_s": 70, "min_nontrivial": 400, "require": REQ},
    "thorough": {"cases": 60000, "soft_s": 1300, "min_nontrivial": 15000, "require": REQ},
}
ASSUMPTIONS = ["graphs whose offset parameters are registered consistently with the edges (as from_g2o produces them); symmetric information; custom edges, SE(3) landmark edges with "
               "offset_id None/unregistered are outside the property's quantifier; the fixed flag is not part of the format"]


def extreme(rng, n):
    out = []
    for _ in range(n):
        c = rng.random()
        if c < 0.3:
            x = float(rng.choice([-1, 1]) * 10.0 ** rng.uniform(-300, 300))
        elif c < 0.4:
            x = float(rng.choice([5e-324, -5e-324, 2.2250738585072014e-308, 1.7976931348623157e308, -1.7976931348623157e308, 0.0, -0.0, 1e-310]))
        elif c < 0.6:
            x = float(np.float64(rng.integers(-2 ** 53, 2 ** 53)))
        else:
            x = float(rng.normal() * 10.0 ** rng.uniform(-8, 8))
        out.append(x)
    return out


def sym_info(rng, n, ext):
    if ext:
        A = np.array(extreme(rng, n * n)).reshape(n, n)
        A = np.triu(A)
        return (A + np.triu(A, 1).T)
    Mx, _ = gen.info(rng, n, 1e6, scale_exp=4.0)
    return Mx


def make_spec(rng, ctx):
    fam = str(rng.choice(["2d", "3d", "both"]))
    ext = rng.random() < 0.35
    ctx.count("class:family:" + fam)
    if ext:
        ctx.count("class:extreme_values")
    used = set()
    V, E, P = [], [], []
    poses = {"se2": [], "se3": [], "r2": [], "r3": []}
    kinds = {"2d": ["se2", "r2"], "3d": ["se3", "r3"], "both": ["se2", "r2", "se3", "r3"]}[fam]
    huge = rng.random() < 0.3

    def tr(n):
        return extreme(rng, n) if ext else gen.translation(rng, n, 6.0)[0]

    for k in kinds:
        for _ in range(int(rng.integers(2, 5))):
            vid, c = gen.vertex_id(rng, used, cls=None if huge else "small")
            if c.startswith("huge"):
                ctx.count("class:huge_ids")
            if k == "se2":
                p = tr(2) + [gen.angle(rng)[0]]
            elif k == "se3":
                p = tr(3) + gen.unit_quat(rng)[0]
            else:
                p = tr(R.CD[k])
            V.append({"id": vid, "kind": k, "pose": p, "fixed": False})
            poses[k].append(vid)
    # parameters
    pid_used = set()
    for k in ("se2", "se3"):
        if k in kinds:
            for _ in range(int(rng.integers(1, 4))):
                pid = int(rng.integers(0, 50)) if rng.random() < 0.6 else 0  # id 0 is also the id every 2-D landmark edge implicitly carries
                if (k, pid) in pid_used:
                    continue
                pid_used.add((k, pid))
                if k == "se2":
                    val = tr(2) + [gen.angle(rng)[0]]
                else:
                    val = (tr(3) if rng.random() < 0.5 else gen.translation(rng, 3, 2.0)[0]) + gen.unit_quat(rng)[0]
                P.append({"tag": "PARAMS_SE2OFFSET" if k == "se2" else "PARAMS_SE3OFFSET", "id": pid, "value": val})
    se3_params = [p for p in P if p["tag"] == "PARAMS_SE3OFFSET"]
    for k in ("se2", "se3"):
        if k not in kinds:
            continue
        kp = R.POINT_OF[k]
        for _ in range(int(rng.integers(1, 6))):
            a, b = [poses[k][int(x)] for x in rng.choice(len(poses[k]), 2, replace=False)]
            if k == "se2":
                z = tr(2) + [gen.angle(rng)[0]]
            else:
                q, c = gen.unit_quat(rng)
                if q[3] < 0:
                    ctx.count("class:meas_quat_wneg")
                z = tr(3) + q
            E.append({"type": "odo", "ids": [a, b], "info": sym_info(rng, R.CD[k], ext).tolist(), "est": z, "est_kind": k})
        for _ in range(int(rng.integers(0, 4))):
            a = poses[k][int(rng.integers(len(poses[k])))]
            b = poses[kp][int(rng.integers(len(poses[kp])))]
            z = tr(R.CD[kp])
            if k == "se2":
                E.append({"type": "lm", "ids": [a, b], "info": sym_info(rng, 2, ext).tolist(), "est": z, "est_kind": "r2", "off": R.identity("se2"), "off_kind": "se2", "off_id": 0})
            elif se3_params:
                p = se3_params[int(rng.integers(len(se3_params)))]
                E.append({"type": "lm", "ids": [a, b], "info": sym_info(rng, 3, ext).tolist(), "est": z, "est_kind": "r3", "off": list(p["value"]), "off_kind": "se3", "off_id": p["id"]})
                if abs(abs(p["value"][6]) - 1) > 1e-12:
                    ctx.count("class:offset_rotated")
    if E and rng.random() < 0.3:
        # an edge listed twice (two identical lines in the file, e.g. an edge split into equal halves)
        E.insert(int(rng.integers(len(E) + 1)), gen.copy_spec(E[int(rng.integers(len(E)))]))
        ctx.count("class:identical_parallel_edges")
    order = rng.permutation(len(V))
    V = [V[int(j)] for j in order]
    return {"vertices": V, "edges": E, "params": P}, fam, ext


def quat_equiv(a, b, tol):
    a, b = np.array(a), np.array(b)
    na, nb = np.linalg.norm(a), np.linalg.norm(b)
    if not (na > 0 and nb > 0):
        return bool(np.array_equal(a, b))
    a, b = a / na, b / nb
    return bool(min(np.abs(a - b).max(), np.abs(a + b).max()) <= tol)


def compare_graphs(ctx, g0, g1, cycles, feats, case):
    """Element-wise lossless comparison of the reloaded graph g1 with the original g0."""
    ok = len(g0._vertices) == len(g1._vertices) and len(g0._edges) == len(g1._edges)
    ok = ok and all(a.id == b.id and type(a.pose) is type(b.pose) for a, b in zip(g0._vertices, g1._vertices))
    ok = ok and all(type(a) is type(b) and list(a.vertex_ids) == list(b.vertex_ids) and type(a.estimate) is type(b.estimate) for a, b in zip(g0._edges, g1._edges))
    p0 = g0._g2o_params or {}
    p1 = g1._g2o_params or {}
    ok = ok and list(p0.keys()) == list(p1.keys())
    if not ctx.check("roundtrip-structure", ok, feats, {"n_vertices": [len(g0._vertices), len(g1._vertices)], "n_edges": [len(g0._edges), len(g1._edges)],
                                                         "params": [list(map(str, p0.keys())), list(map(str, p1.keys()))]}, case):
        return False
    atol = 4 * R.EPS * math.pi * cycles
    okv = True
    for a, b in zip(g0._vertices, g1._vertices):
        pa, pb = M.fl(a.pose), M.fl(b.pose)
        k = M.kind(a.pose)
        if k == "se2":
            okv = okv and pa[:2] == pb[:2] and R.ang_diff(pa[2], pb[2]) <= atol and -math.pi <= pb[2] <= math.pi
        else:
            okv = okv and M.same_numbers(k, pa, pb)
        if not okv:
            ctx.check("roundtrip-vertex-poses", False, dict(feats, kind=k), {"id": a.id, "original": pa, "reloaded": pb}, case)
            break
    if okv:
        ctx.check("roundtrip-vertex-poses", True)
    oke = oki = oko = True
    for a, b in zip(g0._edges, g1._edges):
        ea, eb = M.fl(a.estimate), M.fl(b.estimate)
        if isinstance(a.estimate, M.PoseSE2):
            same = ea[:2] == eb[:2] and R.ang_diff(ea[2], eb[2]) <= atol
        elif isinstance(a.estimate, M.PoseSE3):
            same = ea[:3] == eb[:3] and quat_equiv(ea[3:], eb[3:], 4 * R.EPS * cycles) and abs(np.linalg.norm(eb[3:]) - 1) <= 4 * R.EPS
        else:
            same = M.same_numbers("r", ea, eb)
        if not same and oke:
            oke = False
            ctx.check("roundtrip-edge-measurements", False, dict(feats, edge=type(a).__name__, est=type(a.estimate).__name__), {"ids": a.vertex_ids, "original": ea, "reloaded": eb}, case)
        ia, ib = np.asarray(a.information, dtype=float), np.asarray(b.information, dtype=float)
        if (ia.shape != ib.shape or not np.array_equal(ia, ib, equal_nan=True)) and oki:
            oki = False
            ctx.check("roundtrip-information", False, dict(feats, edge=type(a).__name__), {"ids": a.vertex_ids, "original": ia, "reloaded": ib}, case)
        if isinstance(a, M.EdgeLandmark):
            oa, ob = M.fl(a.offset), (M.fl(b.offset) if b.offset is not None else None)
            k = M.kind(a.offset)
            if k == "se2":
                same = ob is not None and oa[:2] == ob[:2] and R.ang_diff(oa[2], ob[2]) <= atol
            else:
                same = ob is not None and M.same_numbers(k, oa, ob) and a.offset_id == b.offset_id
            if not same and oko:
                oko = False
                ctx.check("roundtrip-offsets", False, dict(feats, offset_kind=k, offset_is_identity=(oa == R.identity(k))), {"ids": a.vertex_ids, "original": oa, "reloaded": ob,
                                                                                                                        "offset_ids": [a.offset_id, b.offset_id]}, case)
    for key in p0:
        va, vb = M.fl(p0[key].value), M.fl(p1[key].value)
        k = M.kind(p0[key].value)
        same = (va[:2] == vb[:2] and R.ang_diff(va[2], vb[2]) <= atol) if k == "se2" else M.same_numbers(k, va, vb)
        if not same and oko:
            oko = False
            ctx.check("roundtrip-offsets", False, dict(feats, parameter=str(key[0])), {"original": va, "reloaded": vb}, case)
    if oke:
        ctx.check("roundtrip-edge-measurements", True)
    if oki:
        ctx.check("roundtrip-information", True)
    if oko:
        ctx.check("roundtrip-offsets", True)
    return okv and oke and oki and oko


def check_file_tokens(ctx, path, g0, feats, case):
    """Independent re-tokenisation of the written file: it must carry exactly the live numbers, parameters first, then vertices, then edges, in list order."""
    with open(path) as f:
        lines = f.readlines()
    recs = [R.parse_g2o_line(ln) for ln in lines]
    recs = [r for r in recs if r is not None]
    if any(isinstance(r, tuple) for r in recs):
        return ctx.check("file-tokens-exact", False, dict(feats, why="unparseable line written"), {"lines": [r for r in recs if isinstance(r, tuple)][:3]}, case)
    what = [r["what"] for r in recs]
    order_ok = what == sorted(what, key=lambda w: {"param": 0, "vertex": 1, "edge": 2}[w])
    ps = [r for r in recs if r["what"] == "param"]
    vs = [r for r in recs if r["what"] == "vertex"]
    es = [r for r in recs if r["what"] == "edge"]
    ok = order_ok and len(vs) == len(g0._vertices) and len(es) == len(g0._edges) and len(ps) == len(g0._g2o_params or {})
    why = None if ok else "order/count"
    if ok:
        for r, v in zip(vs, g0._vertices):
            if not (r["id"] == v.id and r["kind"] == M.kind(v.pose) and M.same_numbers("x", r["pose"], M.fl(v.pose))):
                ok, why = False, ("vertex", v.id, r["pose"], M.fl(v.pose))
                break
    if ok:
        for r, e in zip(es, g0._edges):
            tri = np.asarray(e.information, dtype=float)
            same = r["ids"] == list(e.vertex_ids) and M.same_numbers("x", r["est"], M.fl(e.estimate)) and np.array_equal(np.array(r["info"]), tri, equal_nan=True)
            same = same and r["type"] == ("odo" if isinstance(e, M.EdgeOdometry) else "lm")
            if isinstance(e, M.EdgeLandmark) and "off_id" in r:
                same = same and r["off_id"] == e.offset_id
            if not same:
                ok, why = False, ("edge", list(map(str, e.vertex_ids)), r["est"], M.fl(e.estimate))
                break
    if ok:
        for r, (key, p) in zip(ps, (g0._g2o_params or {}).items()):
            if not (r["tag"] == key[0] and r["id"] == key[1] and M.same_numbers("x", r["value"], M.fl(p.value))):
                ok, why = False, ("param", str(key), r["value"], M.fl(p.value))
                break
    return ctx.check("file-tokens-exact", ok, feats, {"why": why}, case)


def element_roundtrips(ctx, g0, feats, case):
    """The per-element entry points (Vertex / EdgeOdometry / EdgeLandmark / G2OParameter*.to_g2o + from_g2o) used directly."""
    atol = 4 * R.EPS * math.pi
    ok = True
    why = None
    params = g0._g2o_params or {}
    try:
        for v in g0._vertices:
            w = M.Vertex.from_g2o(v.to_g2o())
            k = M.kind(v.pose)
            pa, pb = M.fl(v.pose), M.fl(w.pose)
            same = w is not None and w.id == v.id and type(w.pose) is type(v.pose) and ((pa[:2] == pb[:2] and R.ang_diff(pa[2], pb[2]) <= atol) if k == "se2" else M.same_numbers(k, pa, pb))
            if not same:
                ok, why = False, ("vertex", str(v.id), pa, pb)
                break
        for key, prm in params.items():
            q = type(prm).from_g2o(prm.to_g2o())
            va, vb = M.fl(prm.value), M.fl(q.value) if q is not None else None
            k = M.kind(prm.value)
            same = q is not None and q.key == prm.key and ((va[:2] == vb[:2] and R.ang_diff(va[2], vb[2]) <= atol) if k == "se2" else M.same_numbers(k, va, vb))
            if not same:
                ok, why = False, ("param", str(key), va, vb)
                break
        for e in g0._edges:
            line = e.to_g2o()
            f = type(e).from_g2o(line, params)
            same = f is not None and type(f) is type(e) and list(f.vertex_ids) == list(e.vertex_ids) and np.array_equal(np.asarray(f.information), np.asarray(e.information), equal_nan=True)
            if same:
                ea, eb = M.fl(e.estimate), M.fl(f.estimate)
                if isinstance(e.estimate, M.PoseSE2):
                    same = ea[:2] == eb[:2] and R.ang_diff(ea[2], eb[2]) <= atol
                elif isinstance(e.estimate, M.PoseSE3):
                    same = ea[:3] == eb[:3] and quat_equiv(ea[3:], eb[3:], 4 * R.EPS)
                else:
                    same = M.same_numbers("r", ea, eb)
            if same and isinstance(e, M.EdgeLandmark) and isinstance(e.offset, M.PoseSE3):
                same = M.same_numbers("se3", M.fl(e.offset), M.fl(f.offset)) and f.offset_id == e.offset_id
            if not same:
                ok, why = False, ("edge", [str(x) for x in e.vertex_ids], line[:200])
                break
    except Exception as ex:
        ok, why = False, ("exception", type(ex).__name__, str(ex)[:200])
    ctx.check("element-level-roundtrip", ok, feats, {"why": why}, case)


def roundtrip_case(ctx, i, rng):
    spec, fam, ext = make_spec(rng, ctx)
    cycles = int(rng.integers(1, 6))
    edit_between = bool(cycles > 1 and rng.random() < 0.4)
    if cycles > 1:
        ctx.count("class:cycles>1")
    g0 = M.build(spec)
    feats = {"family": fam, "extreme": ext}
    case = {"graph": spec, "cycles": cycles}
    d = tempfile.mkdtemp(prefix="c13-", dir=os.environ.get("VF_SCRATCH"))
    try:
        g = g0
        printopts = bool(rng.random() < 0.25)
        if printopts:
            ctx.count("class:numpy_print_options_set_by_the_application")
        for c in range(1, cycles + 1):
            path = os.path.join(d, "g%d.g2o" % c)
            try:
                if printopts:
                    # display settings of the application (np.set_printoptions) are not a file format: the export carries full precision regardless
                    with np.printoptions(precision=3, suppress=True, threshold=5, linewidth=40, formatter={"float_kind": lambda x: "%.2f" % x}):
                        g.to_g2o(path)
                else:
                    g.to_g2o(path)
            except Exception as ex:
                ctx.check("roundtrip-structure", False, dict(feats, exception=type(ex).__name__, stage="export"), {"message": str(ex)[:300], "cycle": c}, case)
                return
            if c == 1:
                check_file_tokens(ctx, path, g0, feats, case)
                element_roundtrips(ctx, g0, feats, case)
            try:
                g = M.Graph.from_g2o(path)
            except Exception as ex:
                ctx.check("roundtrip-structure", False, dict(feats, exception=type(ex).__name__, stage="import"), {"message": str(ex)[:300], "cycle": c}, case)
                return
            if not compare_graphs(ctx, g0, g, c, dict(feats, cycle=c), case):
                return
            if c == 1:
                # the parameter table that comes back is the one the graph was *built* with (compared with the plain data of the spec, not with the live
                # exporting graph: an export that rewrites its own table would otherwise agree with itself)
                okp, whyp = True, None
                gp = g._g2o_params or {}
                for prm in spec.get("params", []):
                    got = gp.get((prm["tag"], prm["id"]))
                    kk = "se2" if prm["tag"] == "PARAMS_SE2OFFSET" else "se3"
                    want = M.fl(M.mkpose(kk, prm["value"]))
                    if got is None:
                        okp, whyp = False, ("parameter missing after the round trip", prm["tag"], prm["id"])
                        break
                    have = M.fl(got.value)
                    if not all(math.isfinite(x) for x in want):
                        continue
                    same = (have[:2] == want[:2] and R.ang_diff(have[2], want[2]) <= 8 * R.EPS * math.pi) if kk == "se2" else M.same_numbers("se3", have, want)
                    if not same:
                        okp, whyp = False, ("parameter value", prm["tag"], prm["id"], have, want)
                        break
                ctx.check("roundtrip-offsets", okp, dict(feats, what="parameter table vs the values the graph was built with"), {"why": whyp}, case)
            if c == 1 and not ext:
                # the same file read with registered edge types that also recognise built-in lines: still one edge per line
                from .. import custom
                reg = [[custom.OverridingOdometry], [M.EdgeOdometry], [M.EdgeLandmark, M.EdgeOdometry], [custom.OverridingOdometry, custom.OverridingOdometry], [M.EdgeOdometry, M.EdgeOdometry]][int(rng.integers(5))]
                try:
                    gc = M.Graph.from_g2o(path, custom_edge_types=list(reg))
                    okc = len(gc._edges) == len(g._edges) and len(gc._vertices) == len(g._vertices)
                    if okc and reg[0] is custom.OverridingOdometry:
                        # registered types are asked first: every 2-D odometry line comes back as the registered type, not as the built-in one
                        okc = all(type(ec) is custom.OverridingOdometry for ec, eg in zip(gc._edges, g._edges) if type(eg) is M.EdgeOdometry and isinstance(eg.estimate, M.PoseSE2))
                    why = {"edges": [len(gc._edges), len(g._edges)], "registered": [t.__name__ for t in reg]}
                    if okc:
                        with np.errstate(all="ignore"):
                            a_, b_ = float(gc.calc_chi2()), float(g.calc_chi2())
                        okc = (a_ == b_) or (not math.isfinite(a_) and not math.isfinite(b_)) or abs(a_ - b_) <= 1e-12 * abs(b_)
                        why["chi2"] = [a_, b_]
                except Exception as ex:  # noqa: BLE001
                    okc, why = False, {"exception": type(ex).__name__, "message": str(ex)[:200]}
                ctx.check("roundtrip-structure", okc, dict(feats, registered_types=True), why, case)
                ctx.count("class:reimport_with_registered_types_that_parse_builtin_lines")
            if c == 1 and not ext and rng.random() < 0.5:
                # an earlier import of the same file whose objects were then written to by their owner (offsets, measurements, information, poses):
                # a later import still returns what the file says
                try:
                    gx = M.Graph.from_g2o(path)
                    for e in gx._edges:
                        e.information *= 3.0
                        if isinstance(getattr(e, "offset", None), np.ndarray):
                            e.offset[:2] = [0.2, -0.1]
                        if isinstance(e.estimate, np.ndarray):
                            e.estimate[0] = float(e.estimate[0]) + 1.0
                    for v in gx._vertices:
                        v.pose[0] = float(v.pose[0]) + 1.0
                    g_again = M.Graph.from_g2o(path)
                except Exception as ex:
                    ctx.check("roundtrip-structure", False, dict(feats, exception=type(ex).__name__, stage="second import after the first import's objects were edited"), {"message": str(ex)[:300]}, case)
                    return
                ctx.count("class:reimport_after_editing_an_earlier_import")
                if not compare_graphs(ctx, g0, g_again, c, dict(feats, cycle=c, after_editing_an_earlier_import=True), case):
                    return
            if c == 1 and edit_between and not ext:
                # history: the loaded graph is edited in place (offset through the edge that uses it, information scaled in place, a vertex moved) and becomes
                # the reference for the remaining cycles; the next export must write the edited graph
                try:
                    # prime whatever the writer may remember
                    g.to_g2o(os.path.join(d, "primed.g2o"))
                    for e in g._edges:
                        if rng.random() < 0.5:
                            e.information *= 0.5
                        if isinstance(e, M.EdgeLandmark) and isinstance(e.offset, M.PoseSE3) and rng.random() < 0.7:
                            e.offset[:3] = [float(x) for x in rng.normal(size=3)]
                        if isinstance(e.estimate, (M.PoseR2, M.PoseR3)) and rng.random() < 0.5:
                            e.estimate[0] = float(rng.normal())
                    v = g._vertices[int(rng.integers(len(g._vertices)))]
                    v.pose[0] = float(rng.normal())
                    g0 = g
                    ctx.count("class:edited_in_place_between_cycles")
                except Exception as ex:
                    ctx.count("edit_between_cycles_raised:" + type(ex).__name__)
        with np.errstate(all="ignore"):
            c0, c1 = float(g0.calc_chi2()), float(g.calc_chi2())
        at_cut = False
        for e in g0._edges:
            if isinstance(e, M.EdgeOdometry) and O.edge_in_domain(e, slack=1e9):
                k0 = M.kind(e.vertices[0].pose)
                full = R.vals(R.odo_err_full(k0, M.fl(e.vertices[0].pose), M.fl(e.vertices[1].pose), M.fl(e.estimate)))
                if k0 == "se3" and abs(full[6]) < 1e-6 * max(1.0, float(np.linalg.norm(full[3:]))):
                    at_cut = True
                if k0 == "se2" and abs(abs(R.val(R.wrap(full[2]))) - math.pi) < 1e-6:
                    at_cut = True
        if at_cut:
            ctx.count("chi2_not_compared:error_at_its_discontinuity(180deg / +-pi)")
        elif math.isfinite(c0) and math.isfinite(c1):
            bound = 0.0
            for e in g0._edges:
                if O.edge_in_domain(e, slack=1e9):
                    with np.errstate(all="ignore"):
                        er = np.atleast_1d(np.asarray(e.calc_error(), dtype=float))
                        bound += O.chi2_bound(er, e.information, O.edge_scale(e)) * 4
                        # angle re-wrapping moves angles by <= 4 eps pi per cycle
                        Om = np.abs(np.asarray(e.information))
                        sc = O.edge_scale(e)
                        dd = 16 * R.EPS * math.pi * cycles * (1 + sc)
                        bound += 2 * float(np.abs(er).max()) * float(Om.sum()) * dd + float(Om.sum()) * dd * dd
            if math.isfinite(bound):
                ctx.close("roundtrip-chi2", c1, c0, bound + 1e-13 * abs(c0), feats, {"cycles": cycles}, case)
            else:
                ctx.count("chi2_bound_overflow")
        elif ext:
            # values up to 1e300: whether a product overflows to inf or stays just below it can depend on the last bit of a re-wrapped angle; the
            # element-wise comparisons above (exact numbers) are the verdict for these graphs, the sum of overflowing terms is not
            ctx.count("chi2_not_compared:overflow_in_an_extreme_value_graph")
        else:
            ctx.check("roundtrip-chi2", (not math.isfinite(c0)) and (not math.isfinite(c1)), dict(feats, nonfinite=True), {"chi2": [c0, c1]}, case)
    finally:
        shutil.rmtree(d, ignore_errors=True)
    nonint = any(x != int(x) for v in spec["vertices"] for x in v["pose"] if math.isfinite(x) and abs(x) < 1e15)
    if len(spec["edges"]) >= 2 and nonint:
        ctx.nontrivial(gen.fingerprint(spec))
    ctx.sample({"family": fam, "extreme_values": ext, "cycles": cycles, "vertices": spec["vertices"][:2], "edges": [{k: v for k, v in e.items() if k != "info"} for e in spec["edges"][:2]],
                "params": spec["params"][:1]}, cap=2)


def graphs_same_physical(g0, g1):
    """Silent element-wise comparison (the same criteria as compare_graphs, for one cycle)."""
    class _Null:
        def check(self, *a, **k):
            return a[1]

        def count(self, *a, **k):
            pass
    rec = []

    class _Rec(_Null):
        def check(self, name, ok, *a, **k):
            rec.append(bool(ok))
            return ok
    compare_graphs(_Rec(), g0, g1, 1, {}, None)
    return bool(rec) and all(rec)


def refusal_case(ctx, i, rng, variant=None):
    """Content the format cannot express must be refused with an error (at export, or at the latest when the written file is read back) instead
    of silently becoming a different graph."""
    variant = variant or str(rng.choice(["odo_r2", "odo_r3", "lm_r2", "lm_r3", "lm_se2_offset", "lm_se2_tiny_offset", "lm_se3_offset_id_none", "lm_se3_offset_id_none_param0", "lm_se3_offset_unregistered"]))
    params = None
    if variant.startswith("odo_r"):
        k = variant[-2:]
        spec = {"vertices": [{"id": 1, "kind": k, "pose": gen.mild_pose(rng, k)}, {"id": 2, "kind": k, "pose": gen.mild_pose(rng, k)}],
                "edges": [{"type": "odo", "ids": [1, 2], "info": np.eye(R.CD[k]).tolist(), "est": gen.mild_pose(rng, k), "est_kind": k}]}
    elif variant in ("lm_r2", "lm_r3"):
        k = variant[-2:]
        spec = {"vertices": [{"id": 1, "kind": k, "pose": gen.mild_pose(rng, k)}, {"id": 2, "kind": k, "pose": gen.mild_pose(rng, k)}],
                "edges": [{"type": "lm", "ids": [1, 2], "info": np.eye(R.CD[k]).tolist(), "est": gen.mild_pose(rng, k), "est_kind": k, "off": gen.mild_pose(rng, k), "off_kind": k, "off_id": 0}]}
    elif variant.startswith("lm_se3"):
        # an SE(3) landmark edge whose offset has no id / an id that is not in the parameter table: the EDGE_SE3_TRACKXYZ line cannot name its offset
        off = gen.normalize_pose("se3", gen.mild_pose(rng, "se3", 0.5))
        spec = {"vertices": [{"id": 1, "kind": "se3", "pose": gen.normalize_pose("se3", gen.mild_pose(rng, "se3"))}, {"id": 2, "kind": "r3", "pose": gen.mild_pose(rng, "r3")},
                             {"id": 3, "kind": "se3", "pose": gen.normalize_pose("se3", gen.mild_pose(rng, "se3"))}],
                "edges": [{"type": "odo", "ids": [1, 3], "info": np.eye(6).tolist(), "est": gen.normalize_pose("se3", gen.mild_pose(rng, "se3")), "est_kind": "se3"},
                          {"type": "lm", "ids": [1, 2], "info": np.eye(3).tolist(), "est": gen.mild_pose(rng, "r3"), "est_kind": "r3", "off": off, "off_kind": "se3",
                           "off_id": None if "none" in variant else 7}]}
        if variant.endswith("param0"):
            # the edge's own offset has no id, while the parameter table holds a *different* offset under id 0
            spec["params"] = [{"tag": "PARAMS_SE3OFFSET", "id": 0, "value": gen.normalize_pose("se3", gen.mild_pose(rng, "se3", 0.5))}]
        elif not variant.endswith("none"):
            spec["params"] = [{"tag": "PARAMS_SE3OFFSET", "id": 3, "value": gen.normalize_pose("se3", gen.mild_pose(rng, "se3", 0.5))}]
    else:
        off = gen.mild_pose(rng, "se2", 0.5)
        if rng.random() < 0.3:
            off = [0.0, 0.0, float(rng.uniform(0.1, 3))]
        elif rng.random() < 0.3:
            off = [float(rng.normal()), 0.0, 0.0]
        if variant == "lm_se2_tiny_offset":
            # non-zero but tiny (calibration residue): still not the identity, still not expressible
            off = [float(10 ** rng.uniform(-15, -7)) * float(rng.choice([-1, 1])), 0.0 if rng.random() < 0.5 else float(10 ** rng.uniform(-15, -7)), float(rng.choice([0.0, 10 ** rng.uniform(-15, -7)]))]
        spec = {"vertices": [{"id": 1, "kind": "se2", "pose": gen.mild_pose(rng, "se2")}, {"id": 2, "kind": "r2", "pose": gen.mild_pose(rng, "r2")}],
                "edges": [{"type": "lm", "ids": [1, 2], "info": np.eye(2).tolist(), "est": gen.mild_pose(rng, "r2"), "est_kind": "r2", "off": off, "off_kind": "se2", "off_id": 0}]}
    g = M.build(spec)
    d = tempfile.mkdtemp(prefix="c13-", dir=os.environ.get("VF_SCRATCH"))
    feats = {"variant": variant}
    case = {"graph": spec}
    try:
        path = os.path.join(d, "x.g2o")
        stage = None
        raised = None
        g1 = None
        try:
            g.to_g2o(path)
            stage = "import"
            g1 = M.Graph.from_g2o(path)
            stage = None
        except Exception as ex:
            raised = type(ex).__name__
            stage = stage or "export"
        if raised is None:
            # no error anywhere: acceptable only if what came back is the same physical graph, element by element
            ctx.check("inexpressible-content-refused", graphs_same_physical(g, g1), feats, {"raised": None, "note": "exported and re-imported without error, but the reloaded graph differs"}, case)
        else:
            ctx.check("inexpressible-content-refused", True)
            ctx.count("refused_at_%s_with:%s" % (stage, raised))
    finally:
        shutil.rmtree(d, ignore_errors=True)
    ctx.count("refusal_variant:" + variant)
    ctx.nontrivial(gen.fingerprint(spec))


def run_case(ctx, i, rng):
    if i % 6 == 5:
        refusal_case(ctx, i, rng)
    else:
        roundtrip_case(ctx, i, rng)


def pinned_f4(ctx):
    """F4: SE(2)->R^2 landmark edge with a non-identity offset exported to .g2o."""
    refusal_case(ctx, -1, np.random.default_rng(44), variant="lm_se2_offset")


def _line_count_case(n_lines):
    def f(ctx):
        """A file of exactly n_lines lines (round counts: buffer/chunk sizes a writer or reader might use)."""
        rng = np.random.default_rng([13, n_lines])
        nv = n_lines * 2 // 5
        ne = n_lines - nv
        V = [{"id": j, "kind": "se2", "pose": [float(x) for x in rng.normal(size=2) * 5] + [float(rng.uniform(-3, 3))], "fixed": False} for j in range(nv)]
        E = []
        for j in range(ne):
            a, b = (j % nv, (j + 1) % nv) if j < nv else [int(x) for x in rng.choice(nv, 2, replace=False)]
            E.append({"type": "odo", "ids": [a, b], "info": sym_info(rng, 3, False).tolist(), "est": [float(x) for x in rng.normal(size=2)] + [float(rng.uniform(-3, 3))], "est_kind": "se2"})
        spec = {"vertices": V, "edges": E, "params": []}
        g0 = M.build(spec)
        d = tempfile.mkdtemp(prefix="c13-", dir=os.environ.get("VF_SCRATCH"))
        feats = {"family": "lines=%d" % n_lines, "extreme": False}
        case = {"generator": "_line_count_case", "n_lines": n_lines}
        try:
            pth = os.path.join(d, "n.g2o")
            g0.to_g2o(pth)
            with open(pth) as fh:
                got = sum(1 for ln in fh if ln.strip())
            ctx.check("file-tokens-exact", got == n_lines, dict(feats, what="line count"), {"lines_written": got, "elements": n_lines}, case)
            g = M.Graph.from_g2o(pth)
            compare_graphs(ctx, g0, g, 1, dict(feats, cycle=1), case)
            ctx.count("class:file_of_exactly_%d_lines" % n_lines)
        finally:
            shutil.rmtree(d, ignore_errors=True)
    f.__name__ = "lines_%d" % n_lines
    return f


PINNED = [pinned_f4] + [_line_count_case(n) for n in (999, 1000, 1001, 1024, 2000, 4096, 8192)]


def _dataset_case(name):
    def f(ctx):
        from .. import datasets

        if not datasets.available(name):
            ctx.skip("dataset file missing: " + name)
            return
        g0 = M.Graph.from_g2o(datasets.path(name))
        d = tempfile.mkdtemp(prefix="c13-", dir=os.environ.get("VF_SCRATCH"))
        feats = {"family": "dataset:" + name, "extreme": False}
        try:
            g = g0
            for c in (1, 2):
                pth = os.path.join(d, "d%d.g2o" % c)
                g.to_g2o(pth)
                if c == 1:
                    check_file_tokens(ctx, pth, g0, feats, {"dataset": name})
                g = M.Graph.from_g2o(pth)
                compare_graphs(ctx, g0, g, c, dict(feats, cycle=c), {"dataset": name})
            c0, c1 = float(g0.calc_chi2()), float(g.calc_chi2())
            ctx.close("roundtrip-chi2", c1, c0, 1e-9 * abs(c0), feats, None, {"dataset": name})
        finally:
            shutil.rmtree(d, ignore_errors=True)
        ctx.count("dataset:" + name)
        ctx.nontrivial("dataset-" + name)
    return f


DATASET_CASES = [_dataset_case("intel"), _dataset_case("garage")]
