"""C17 - equals is a sound, total tolerance comparison.

Events: return value or exception of x.equals(y, tol) and y.equals(x, tol) for pairs of poses, vertices, edges (odometry,
landmark, custom with scalar / array / pose estimates) and graphs.
Oracle: an independent specification of the relative-norm comparison: same ids, classes, shapes, order and, per compared
array, ||delta|| / max(||ref||, tol); expected True if the ratio <= 0.1 tol, False if >= 10 tol, undecided in between; True for
copies; False whenever ids, classes, sizes or order differ; never an exception.
"""
import math

import numpy as np

from .. import custom, gen, model as M, refmodel as R

KINDS = ["pose", "vertex", "odo", "lm", "custom", "graph"]
RULE = ("cases from rng(seed, 17, 0, i): object category = i mod 6 of pose / vertex / odometry edge / landmark edge / custom edge / graph; y derived from x by (a) copy, (b) a single-"
        "component perturbation of magnitude 10^U(-12,3) x tol x max(||array||, tol) in one compared array, (c) a structural difference (other pose class of equal or different "
        "size, other id, other edge class, other estimate kind/size, other information shape, shapes that differ but broadcast to an all-zero difference, instance of a subclass, one vertex's pose swapped after construction for its equal-size sibling class (also in graphs of 64-130 vertices), extra element, swapped order; graphs whose vertices span scales 1e-3..1e4); tol in 10^U(-12,-2); both directions evaluated. "
        "distinct = fingerprint(x, mutation); non-trivial = mutation other than copy with a decided expectation."
        " later additions: ids >= 2^63 next to small ones, compare - rescale in place - compare histories, comparisons with numpy divide/invalid errors raised, copies made by the copy module.")
REQ = ["eval:equals-never-raises", "eval:equals-expected-true", "eval:equals-expected-false", "cat:pose", "cat:vertex", "cat:odo", "cat:lm", "cat:custom", "cat:graph", "mut:copy",
       "mut:perturb_below", "mut:perturb_above", "mut:class_same_size", "mut:class_other_size", "mut:id", "mut:edge_class", "mut:estimate_size", "mut:broadcastable_shape", "mut:vertex_class_swapped", "mut:views_into_one_table", "class:compared_with_debug_logging_enabled", "mut:loaded_vs_built_from_its_lists", "class:copy_made_with_the_copy_module", "class:compared_then_rescaled_in_place_then_compared", "class:compared_with_fp_errors_raised", "class:graph_64+_vertices", "mut:information_shape",
       "mut:graph_extra_element", "mut:graph_order", "mut:offset", "mut:offset_id", "mut:edge_subclass", "class:graph_multi_scale", "class:default_tol_argument_omitted", "mut:ids_container", "mut:pose_subclass", "class:graphs_used_and_restored_before_comparison"]
PLAN = {
    "quick": {"cases": 12000, "soft_s": 60, "min_nontrivial": 3000, "require": REQ},
    "thorough": {"cases": 800000, "soft_s": 1200, "min_nontrivial": 200000, "require": REQ},
}
ASSUMPTIONS = ["pairs are drawn within one category (pose x pose, vertex x vertex, edge x edge, graph x graph); perturbations that carry an SE(2) angle across +-pi are excluded"]
SAME_SIZE = {"se2": "r3", "r3": "se2"}


class SubR2(M.PoseR2):
    """A user subclass of a built-in pose: a different type."""


class SubR3(M.PoseR3):
    pass


class SubSE2(M.PoseSE2):
    pass


class SubSE3(M.PoseSE3):
    pass


SUBPOSE = {"r2": SubR2, "r3": SubR3, "se2": SubSE2, "se3": SubSE3}


def as_subclass_pose(p):
    return np.array(M.fl(p), dtype=np.float64).view(SUBPOSE[M.kind(p)] if type(p) in M.KIND_OF_CLS else type(p))


class SubOdometry(M.EdgeOdometry):
    """A user subclass of a built-in edge: a different type, hence never equal to a plain EdgeOdometry."""


class SubLandmark(M.EdgeLandmark):
    pass


class SubDistance(custom.DistanceEdge):
    pass


class SubPosPrior(custom.PositionPriorEdge):
    pass


class SubPrior(custom.PriorEdge):
    pass


def subclass_instance(e):
    sub = {M.EdgeOdometry: SubOdometry, M.EdgeLandmark: SubLandmark, custom.DistanceEdge: SubDistance, custom.PositionPriorEdge: SubPosPrior, custom.PriorEdge: SubPrior}[type(e)]
    if isinstance(e, M.EdgeLandmark):
        return sub(list(e.vertex_ids), e.information.copy(), e.estimate.copy(), e.offset.copy() if e.offset is not None else None, offset_id=e.offset_id)
    est = e.estimate.copy() if hasattr(e.estimate, "copy") else e.estimate
    return sub(list(e.vertex_ids), e.information.copy(), est)


def mk_pose(rng, k):
    p = gen.mild_pose(rng, k, float(10 ** rng.uniform(-2, 3)))
    if rng.random() < 0.1:
        p = R.identity(k)
    return gen.normalize_pose(k, p)


def _two_ids(rng):
    u = rng.random()
    if u < 0.5:
        return [3, 8]
    if u < 0.62:
        # an id beyond the signed 64-bit range next to a small or negative one (a list like that has no common integer dtype in numpy)
        big = 2 ** 63 + int(rng.integers(0, 2 ** 20))
        return [big, int(rng.choice([-7, 0, 5]))] if rng.random() < 0.5 else [int(rng.choice([-7, 0, 5])), big]
    base = int(rng.choice([10 ** 5, 3 * 10 ** 6, 10 ** 9, 2 ** 53, 2 ** 62, -(10 ** 7)])) + int(rng.integers(0, 1000))
    return [base, base + int(rng.integers(1, 4))]


def edge_spec(rng, cat, k):
    ids2 = _two_ids(rng)
    s = _edge_spec(rng, cat, k)
    s["ids"] = ids2[: len(s["ids"])]
    return s


def _edge_spec(rng, cat, k):
    if cat == "odo":
        return {"type": "odo", "ids": [3, 8], "info": gen.spd(rng, R.CD[k], 100, True, float(10 ** rng.uniform(-3, 3))).tolist(), "est": mk_pose(rng, k), "est_kind": k}
    if cat == "lm":
        kp = R.POINT_OF[k]
        return {"type": "lm", "ids": [3, 8], "info": gen.spd(rng, R.CD[kp], 100, True, float(10 ** rng.uniform(-3, 3))).tolist(), "est": mk_pose(rng, kp), "est_kind": kp,
                "off": mk_pose(rng, k), "off_kind": k, "off_id": int(rng.integers(0, 5)) if rng.random() < 0.8 else None}
    c = str(rng.choice(["distance", "posprior", "prior"]))
    if c == "distance":
        return {"type": "custom:distance", "ids": [3, 8], "info": [[float(10 ** rng.uniform(-2, 2))]], "est": [float(rng.uniform(0.5, 50))], "est_kind": "scalar"}
    if c == "posprior":
        n = 2 if k in ("r2", "se2") else 3
        return {"type": "custom:posprior", "ids": [3], "info": gen.spd(rng, n, 10).tolist(), "est": [float(x) for x in rng.normal(size=n) * 5], "est_kind": "array"}
    return {"type": "custom:prior", "ids": [3], "info": gen.spd(rng, R.CD[k], 10).tolist(), "est": mk_pose(rng, k), "est_kind": k}


def arrays_of(cat, spec):
    """Names of the numeric arrays equals compares, with their SE(2)-angle component (or None)."""
    if cat == "pose":
        return [("pose", 2 if spec["kind"] == "se2" else None)]
    if cat == "vertex":
        return [("pose", 2 if spec["kind"] == "se2" else None)]
    out = [("info", None), ("est", 2 if spec.get("est_kind") == "se2" else None)]
    if spec["type"] == "lm":
        out.append(("off", 2 if spec.get("off_kind") == "se2" else None))
    return out


def perturb(rng, arr, tol, angle_comp):
    """Single-component perturbation; returns (new array, m) or None if it would cross the SE(2) cut."""
    a = np.array(arr, dtype=float)
    flat = a.ravel().copy()
    j = int(rng.integers(flat.size))
    m = float(10 ** rng.uniform(-12, 3))
    if rng.random() < 0.5:
        m = float(rng.choice([10 ** rng.uniform(-12, -1.05), 10 ** rng.uniform(1.05, 3)]))
    nrm = float(np.linalg.norm(flat))
    d = m * tol * max(nrm, tol) * float(rng.choice([-1.0, 1.0]))
    if a.ndim == 2:
        # keep the information matrix symmetric: perturb (r,c) and (c,r)
        r, c = divmod(j, a.shape[1])
        b = a.copy()
        b[r, c] += d
        if r != c:
            b[c, r] += d
        return b, m, (r, c)
    if angle_comp is not None and j == angle_comp and abs(flat[j] + d) >= math.pi:
        return None
    flat[j] += d
    return flat.reshape(a.shape), m, j


def ratio(ref, other, tol):
    ref, other = np.asarray(ref, dtype=float).ravel(), np.asarray(other, dtype=float).ravel()
    return float(np.linalg.norm(ref - other) / max(np.linalg.norm(ref), tol))


def decide(r, tol):
    if r <= 0.1 * tol:
        return True
    if r >= 10 * tol:
        return False
    return None


def live_arrays(cat, obj):
    if cat == "pose":
        return {"pose": M.fl(obj)}
    if cat == "vertex":
        return {"pose": M.fl(obj.pose)}
    d = {"info": M.fl(obj.information), "est": M.fl(obj.estimate)}
    if getattr(obj, "offset", None) is not None:
        d["off"] = M.fl(obj.offset)
    return d


def build_obj(cat, spec):
    if cat == "pose":
        return M.mkpose(spec["kind"], spec["pose"])
    if cat == "vertex":
        return M.Vertex(spec["id"], M.mkpose(spec["kind"], spec["pose"]))
    return M.build_edge(spec)


class _Plain:
    def __enter__(self):
        return self

    def __exit__(self, *a):
        return False


def _all_finite_moderate(o):
    """Every number the comparison will look at is finite and of moderate size (no legitimate overflow / NaN arithmetic to be expected)."""
    try:
        if isinstance(o, M.Graph):
            return all(_all_finite_moderate(v) for v in o._vertices) and all(_all_finite_moderate(e) for e in o._edges)
        arrs = [o] if isinstance(o, M.BasePose) else [o.pose] if isinstance(o, M.Vertex) else [o.estimate, o.information, getattr(o, "offset", None)]
        for a_ in arrs:
            if a_ is None:
                continue
            v = np.atleast_1d(np.asarray(a_, dtype=float))
            if not np.all(np.isfinite(v)) or (v.size and float(np.abs(v).max()) > 1e100):
                return False
        return True
    except Exception:  # noqa: BLE001
        return False


def call_both(ctx, x, y, tol, expect_xy, expect_yx, feats, case):
    # a fifth of the comparisons run with the library's loggers at DEBUG (chosen from the tolerance's digits, so a replay makes the same choice)
    debug = int(repr(float(tol))[-1], 16) % 5 == 0 if repr(float(tol))[-1] in "0123456789" else False
    if debug:
        ctx.count("class:compared_with_debug_logging_enabled")
        feats = dict(feats, debug_logging=True)
    for a, b, exp, direction in ((x, y, expect_xy, "x.equals(y)"), (y, x, expect_yx, "y.equals(x)")):
        try:
            # a third of the comparisons run with numpy's divide / invalid errors raised (an application debugging its numerics): a comparison of
            # well-formed finite objects has no 0/0 or x/0 to perform
            strict_fp = (int(repr(float(tol))[-2:].replace(".", "0").replace("-", "0").replace("e", "0"), 16) % 3 == 0) and _all_finite_moderate(a) and _all_finite_moderate(b)
            with (np.errstate(divide="raise", invalid="raise", over="ignore", under="ignore") if strict_fp else np.errstate(all="ignore")), (M.DebugLogging() if debug else _Plain()):
                res = a.equals(b) if tol == 1e-6 else a.equals(b, tol)  # the documented default is 1e-6
            if strict_fp:
                ctx.count("class:compared_with_fp_errors_raised")
        except Exception as ex:
            ctx.check("equals-never-raises", False, dict(feats, exception=type(ex).__name__, direction=direction), {"message": str(ex)[:200]}, case)
            continue
        ctx.check("equals-never-raises", True)
        res = bool(res)
        if exp is None:
            ctx.count("undecided_band")
        elif exp:
            ctx.check("equals-expected-true", res is True, dict(feats, direction=direction), {"returned": res}, case)
        else:
            ctx.check("equals-expected-false", res is False, dict(feats, direction=direction), {"returned": res}, case)


def elem_case(ctx, cat, rng, tol):
    k = str(rng.choice(R.KINDS))
    if cat == "pose":
        spec = {"kind": k, "pose": mk_pose(rng, k)}
    elif cat == "vertex":
        spec = {"kind": k, "pose": mk_pose(rng, k), "id": int(rng.integers(-50, 50)) if rng.random() < 0.5 else _two_ids(rng)[0]}
    else:
        spec = edge_spec(rng, cat, k)
    x = build_obj(cat, spec)
    muts = ["copy", "perturb", "perturb", "perturb", "class_same_size", "class_other_size", "pose_subclass"]
    if k in ("r2", "r3") and cat in ("pose", "vertex"):
        muts += ["views_into_one_table"]
    if cat != "pose":
        muts += ["id"]
    if cat in ("odo", "lm", "custom"):
        muts += ["edge_class", "edge_subclass", "estimate_size", "information_shape", "n_vertex_ids", "ids_container", "broadcastable_shape"]
    if cat == "lm":
        muts += ["offset", "offset_id", "offset_none"]
    mut = str(rng.choice(muts))
    s2 = gen.copy_spec(spec)
    feats = {"category": cat, "kind": k, "mutation": mut}
    if cat in ("odo", "lm", "custom"):
        feats["edge_type"] = spec["type"]
    exp_xy = exp_yx = None
    if mut == "copy":
        exp_xy = exp_yx = True
    elif mut == "ids_container":
        exp_xy = exp_yx = True
    elif mut == "perturb":
        names = arrays_of(cat, spec)
        name, acomp = names[int(rng.integers(len(names)))]
        key = {"pose": "pose", "info": "info", "est": "est", "off": "off"}[name]
        if s2.get(key) is None:
            ctx.skip("array absent")
            return
        live = live_arrays(cat, x)[name]
        shape = np.asarray(s2[key]).shape
        res = perturb(rng, np.array(live).reshape(shape), tol, acomp)
        if res is None:
            ctx.skip("perturbation would cross the SE(2) +-pi cut")
            return
        new, m, comp = res
        s2[key] = new.tolist()
        feats.update(array=name)
    elif mut in ("class_same_size", "class_other_size"):
        # change the pose class of the compared pose-typed element
        field = "pose" if cat in ("pose", "vertex") else ("est" if spec.get("est_kind") in R.KINDS else ("off" if cat == "lm" else None))
        if field is None:
            ctx.skip("no pose-typed element")
            return
        kk = spec["kind"] if field == "pose" else spec[field + "_kind"]
        if mut == "class_same_size":
            if kk not in SAME_SIZE:
                ctx.skip("no other class of equal storage size")
                return
            k2 = SAME_SIZE[kk]
            vals = M.fl(M.mkpose(kk, spec[field]))
        else:
            k2 = str(rng.choice([q for q in R.KINDS if R.FD[q] != R.FD[kk]]))
            vals = mk_pose(rng, k2)
        s2[field] = vals
        s2["kind" if field == "pose" else field + "_kind"] = k2
        exp_xy = exp_yx = False
        feats.update(field=field, other_class=k2)
    elif mut == "id":
        if cat == "vertex":
            s2["id"] = spec["id"] + int(rng.choice([-1, 1, 2, 1000]))
        else:
            s2["ids"] = list(spec["ids"])
            j = int(rng.integers(len(s2["ids"])))
            s2["ids"][j] += int(rng.choice([-1, 1, 2, 1000]))
        exp_xy = exp_yx = False
    elif mut == "n_vertex_ids":
        s2["ids"] = list(spec["ids"]) + [99]
        exp_xy = exp_yx = False
    elif mut == "edge_class":
        other_cat = str(rng.choice([c for c in ("odo", "lm", "custom") if c != cat]))
        s2 = edge_spec(rng, other_cat, k)
        s2["ids"] = list(spec["ids"])[: len(s2["ids"])] + list(s2["ids"])[len(spec["ids"]):]
        exp_xy = exp_yx = False
        feats.update(other=s2["type"])
    elif mut == "edge_subclass":
        exp_xy = exp_yx = False
    elif mut == "pose_subclass":
        if cat == "custom" and spec.get("est_kind") not in R.KINDS:
            ctx.skip("no pose-typed element")
            return
        exp_xy = exp_yx = False
    elif mut == "estimate_size":
        if spec.get("est_kind") in R.KINDS:
            ctx.skip("pose-typed estimate (covered by class mutations)")
            return
        s2["est"] = list(spec["est"]) + [0.0] if rng.random() < 0.5 else [float(x) for x in rng.normal(size=len(spec["est"]) + 2)]
        s2["est_kind"] = "array"
        exp_xy = exp_yx = False
    elif mut == "views_into_one_table":
        # the two poses are columns of one coordinate table (PoseR2(xy[:, i]) wraps the array without copying): different numbers in memory that interleaves
        exp_xy = exp_yx = False
    elif mut == "broadcastable_shape":
        # arrays of different shapes whose element-wise difference would nevertheless be all zero under numpy broadcasting
        exp_xy = exp_yx = False
    elif mut == "information_shape":
        n = len(spec["info"])
        s2["info"] = np.eye(n + 1).tolist()
        exp_xy = exp_yx = False
    elif mut == "offset":
        # same class, clearly different offset
        s2["off"] = mk_pose(rng, spec["off_kind"])
        r1 = ratio(M.fl(M.mkpose(spec["off_kind"], spec["off"])), M.fl(M.mkpose(spec["off_kind"], s2["off"])), tol)
        r2 = ratio(M.fl(M.mkpose(spec["off_kind"], s2["off"])), M.fl(M.mkpose(spec["off_kind"], spec["off"])), tol)
        exp_xy, exp_yx = decide(r1, tol), decide(r2, tol)
    elif mut == "offset_id":
        s2["off_id"] = (spec["off_id"] or 0) + 1 if rng.random() < 0.7 or spec["off_id"] is None else None
        exp_xy = exp_yx = False
    elif mut == "offset_none":
        s2["off"] = None
        exp_xy = exp_yx = False
    try:
        y = subclass_instance(x) if mut == "edge_subclass" else build_obj(cat, s2)
        if mut == "copy" and rng.random() < 0.5:
            # "its copy" also means what the standard library makes of it
            import copy as _copy

            y = _copy.deepcopy(x) if rng.random() < 0.5 else _copy.copy(x)
            ctx.count("class:copy_made_with_the_copy_module")
        if mut == "pose_subclass":
            # the same numbers held in an instance of a user subclass of the pose class (pose itself / vertex pose / edge estimate)
            if cat == "pose":
                y = as_subclass_pose(y)
            elif cat == "vertex":
                y.pose = as_subclass_pose(y.pose)
            else:
                y.estimate = as_subclass_pose(y.estimate)
        if mut == "views_into_one_table":
            n = 2 if k == "r2" else 3
            ncol = int(rng.integers(2, 6))
            table = np.array(rng.normal(size=(n, ncol)) * 5.0)
            ia, ib = [int(t) for t in rng.choice(ncol, 2, replace=False)]
            table[:, ib] = table[:, ia] + (1.0 + rng.random(n))  # clearly different numbers
            pa, pb = M.CLS[k](table[:, ia]), M.CLS[k](table[:, ib])
            if not np.shares_memory(np.asarray(pa), table):
                ctx.count("views_into_one_table:constructor_copied")
            if cat == "pose":
                x, y = pa, pb
            else:
                x, y = M.Vertex(spec["id"], pa), M.Vertex(spec["id"], pb)
            s2 = dict(spec, table=table.tolist(), columns=[ia, ib])
        if mut == "broadcastable_shape":
            c = float(rng.choice([0.0, 1.0, float(rng.normal())]))
            n = len(spec["info"])
            if cat == "custom" and spec.get("est_kind") not in R.KINDS and rng.random() < 0.6:
                m = max(2, int(np.size(x.estimate)))
                x.estimate = np.full(m, c)
                y.estimate = [np.array([c]), np.array(c), np.full((1, m), c), c][int(rng.integers(4))]
                feats["array"] = "estimate"
            else:
                x.information = np.full((n, n), c)
                alts = [np.full((1, n), c), np.full((1, 1), c), np.full(n, c), np.full((n, 1), c)] if n >= 2 else [np.full(1, c), np.array(c), np.full((1, 1, 1), c)]
                y.information = alts[int(rng.integers(len(alts)))]
                feats["array"] = "information"
            if rng.random() < 0.5:
                x, y = y, x
        if mut == "ids_container":
            # the same ids held in a tuple / numpy array instead of a list (the loader produces lists; client code is free to pass tuples)
            y.vertex_ids = tuple(y.vertex_ids) if rng.random() < 0.5 else np.array(y.vertex_ids)
    except Exception:
        ctx.skip("mutated object could not be constructed")
        return
    if mut == "perturb":
        la, lb = live_arrays(cat, x), live_arrays(cat, y)
        r1, r2 = ratio(la[feats["array"]], lb[feats["array"]], tol), ratio(lb[feats["array"]], la[feats["array"]], tol)
        exp_xy, exp_yx = decide(r1, tol), decide(r2, tol)
        ctx.count("mut:perturb_below" if exp_xy is True else "mut:perturb_above" if exp_xy is False else "mut:perturb_in_band")
    else:
        ctx.count("mut:" + mut)
    case = {"category": cat, "x": spec, "y": s2, "tol": tol}
    if mut in ("copy", "perturb") and rng.random() < 0.25:
        # history: the two objects have been compared before, and were then both rescaled in place by a write that does not go through the pose's
        # item assignment (p *= c / np.multiply(p, c, out=p)): the answer depends on the current numbers only (a relative comparison is scale-free)
        try:
            with np.errstate(all="ignore"):
                x.equals(y, tol)
                cfac = float(10 ** rng.uniform(-6, 6))
                for o in (x, y):
                    arrs = [o] if cat == "pose" else [o.pose] if cat == "vertex" else [a_ for a_ in (o.estimate, o.information) if isinstance(a_, np.ndarray)]
                    for a_ in arrs:
                        if isinstance(a_, (M.PoseSE2, M.PoseSE3)):
                            continue  # a scaled angle / quaternion is another rotation, not a rescaling
                        if rng.random() < 0.5:
                            a_ *= cfac
                        else:
                            np.multiply(a_, cfac, out=a_)
            feats = dict(feats, compared_before_then_rescaled_in_place=True)
            ctx.count("class:compared_then_rescaled_in_place_then_compared")
            if mut == "perturb":
                la, lb = live_arrays(cat, x), live_arrays(cat, y)
                r1, r2 = ratio(la[feats["array"]], lb[feats["array"]], tol), ratio(lb[feats["array"]], la[feats["array"]], tol)
                exp_xy, exp_yx = decide(r1, tol), decide(r2, tol)
        except Exception:  # noqa: BLE001
            pass
    call_both(ctx, x, y, tol, exp_xy, exp_yx, feats, case)
    if mut != "copy" and (exp_xy is not None or exp_yx is not None):
        ctx.nontrivial(gen.fingerprint(case))
    ctx.sample({"category": cat, "mutation": mut, "tol": tol, "expected": [exp_xy, exp_yx], "x": spec if cat != "graph" else None}, cap=3)


def loaded_vs_built_case(ctx, rng, tol):
    """A graph loaded from a .g2o file (which registers its PARAMS_* lines) against a graph built in code from copies of the loaded graph's own edge and
    vertex lists: every compared element is a copy, so the graphs are equal in both directions."""
    import copy
    import os
    import shutil
    import tempfile

    from . import c13

    lspec, fam, ext = c13.make_spec(rng, ctx)
    if ext:
        ctx.skip("extreme values drawn")
        return
    d0 = tempfile.mkdtemp(prefix="c17-", dir=os.environ.get("VF_SCRATCH"))
    try:
        pth = os.path.join(d0, "g.g2o")
        M.build(lspec).to_g2o(pth)
        x = M.Graph.from_g2o(pth)
    except Exception:
        ctx.skip("graph could not be written / loaded")
        return
    finally:
        shutil.rmtree(d0, ignore_errors=True)
    how = str(rng.choice(["deep copies of the lists", "the same objects"]))
    if how.startswith("deep"):
        ee, vv = copy.deepcopy((list(x._edges), list(x._vertices)))
    else:
        ee, vv = list(x._edges), list(x._vertices)
    y = M.Graph(ee, vv)
    feats = {"category": "graph", "mutation": "loaded_vs_built_from_its_lists", "how": how, "file_has_parameters": bool(lspec.get("params"))}
    call_both(ctx, x, y, tol, True, True, feats, {"category": "graph", "file_graph": lspec, "tol": tol})
    ctx.count("mut:loaded_vs_built_from_its_lists")
    ctx.nontrivial(gen.fingerprint({"l": lspec, "how": how}))


def graph_case(ctx, rng, tol):
    if rng.random() < 0.06:
        return loaded_vs_built_case(ctx, rng, tol)
    big = bool(rng.random() < 0.08)
    if big:
        spec, _ = gen.cluster_graph(rng, kinds=[str(rng.choice(["se2", "r3", "se3", "r2"]))], size=(64, 130), custom=False, weird_ids=False)
        ctx.count("class:graph_64+_vertices")
    else:
        spec, _ = gen.cluster_graph(rng, size=(2, 4), custom=bool(rng.random() < 0.5), weird_ids=False)
    s2 = gen.copy_spec(spec)
    mut = str(rng.choice(["copy", "perturb_vertex", "perturb_edge", "graph_extra_element", "graph_order", "class_other_size", "vertex_class_swapped"]))
    if big and rng.random() < 0.5 and any(v["kind"] in ("se2", "r3") for v in spec["vertices"]):
        mut = "vertex_class_swapped"
    exp = None
    feats = {"category": "graph", "mutation": mut}
    if rng.random() < 0.5:
        # vertices spanning very different scales (a trajectory from the origin out to kilometres): every element is compared on its own scale
        for v in spec["vertices"]:
            nt = {"r2": 2, "r3": 3, "se2": 2, "se3": 3}[v["kind"]]
            sc = float(10 ** rng.uniform(-3, 4))
            v["pose"] = [x * sc for x in v["pose"][:nt]] + list(v["pose"][nt:])
        s2 = gen.copy_spec(spec)
        ctx.count("class:graph_multi_scale")
    stale = False
    if mut == "copy":
        exp = (True, True)
        stale = bool(rng.random() < 0.5)
    elif mut in ("perturb_vertex", "perturb_edge"):
        below = rng.random() < 0.5
        m = float(10 ** (rng.uniform(-12, -1.5) if below else rng.uniform(1.5, 3)))
        if mut == "perturb_vertex":
            v = s2["vertices"][int(rng.integers(len(s2["vertices"])))]
            live = M.fl(M.mkpose(v["kind"], v["pose"]))
            nt = {"r2": 2, "r3": 3, "se2": 2, "se3": 3}[v["kind"]]
            j = int(rng.integers(nt))
            live[j] += m * tol * max(float(np.linalg.norm(live)), tol)
            v["pose"] = live
        else:
            e = s2["edges"][int(rng.integers(len(s2["edges"])))]
            A = np.array(e["info"], dtype=float)
            A[0, 0] += m * tol * max(float(np.linalg.norm(A)), tol)
            e["info"] = A.tolist()
        # the perturbation is relative to x's norm; y's norm differs by a factor <= (1 + 1e3 tol) <= 11, so stay a decade away from the band
        exp = (True, True) if below else (False, False)
        ctx.count("mut:perturb_below" if below else "mut:perturb_above")
    elif mut == "vertex_class_swapped":
        if not any(v["kind"] in ("se2", "r3") for v in spec["vertices"]):
            ctx.skip("no vertex with a same-size sibling class")
            return
        exp = (False, False)
    elif mut == "graph_extra_element":
        if rng.random() < 0.5:
            s2["vertices"].append({"id": 10 ** 6, "kind": "r2", "pose": [0.0, 1.0], "fixed": False})
        else:
            s2["edges"].append(gen.copy_spec(s2["edges"][0]))
        exp = (False, False)
    elif mut == "graph_order":
        if rng.random() < 0.5 or len(s2["edges"]) < 2:
            a, b = rng.choice(len(s2["vertices"]), 2, replace=False)
            s2["vertices"][a], s2["vertices"][b] = s2["vertices"][b], s2["vertices"][a]
        else:
            a, b = rng.choice(len(s2["edges"]), 2, replace=False)
            ea, eb = s2["edges"][a], s2["edges"][b]
            if ea["type"] == eb["type"] and ea["ids"] == eb["ids"]:
                ctx.skip("swapped parallel edges may be equal")
                return
            s2["edges"][a], s2["edges"][b] = eb, ea
        exp = (False, False)
    else:
        # another graph altogether, of a different pose family
        s2, _ = gen.cluster_graph(rng, kinds=[str(rng.choice(R.KINDS))], size=(len(spec["vertices"]), len(spec["vertices"])), custom=False, landmarks=False, weird_ids=False)
        if [v["kind"] for v in s2["vertices"]] == [v["kind"] for v in spec["vertices"]]:
            ctx.skip("same family drawn")
            return
        exp = (False, False)
    if not mut.startswith("perturb"):
        ctx.count("mut:" + mut)
    try:
        x, y = M.build(spec), M.build(s2)
    except Exception:
        ctx.skip("graph could not be constructed")
        return
    case = {"category": "graph", "x": {k: v for k, v in spec.items() if k != "truth_by_id"}, "y": {k: v for k, v in s2.items() if k != "truth_by_id"}, "tol": tol}
    if mut == "vertex_class_swapped":
        # after construction one vertex's pose is replaced by the same three numbers held in the sibling class of equal size (SE(2) <-> R^3)
        cand = [j for j, v in enumerate(y._vertices) if M.kind(v.pose) in ("se2", "r3")]
        j = cand[int(rng.integers(len(cand)))]
        v = y._vertices[j]
        vals = M.fl(v.pose)
        if M.kind(v.pose) == "se2":
            v.pose = M.PoseR3(vals)
        else:
            v.pose = M.PoseSE2(vals[:2], R.val(R.wrap(vals[2])))
            x._vertices[j].pose = M.PoseR3([vals[0], vals[1], float(M.fl(v.pose)[2])])
        case["swapped_vertex_index"] = j
    if stale:
        # both graphs have been used (chi2 computed / optimized) and one of them was then edited and restored through its public attributes:
        # element by element they are identical again, whatever they cached meanwhile
        with np.errstate(all="ignore"):
            try:
                x.calc_chi2()
                v = y._vertices[int(rng.integers(len(y._vertices)))]
                keep = v.pose
                v.pose = M.mkpose(M.kind(v.pose), [t + 1.0 for t in M.fl(v.pose)])
                y.calc_chi2()
                M.quiet_optimize(y, max_iter=1, tol=0.0, fix_first_pose=False)
                for vv, sv in zip(y._vertices, s2["vertices"]):
                    vv.pose = M.mkpose(sv["kind"], sv["pose"])
                v.pose = keep
                feats = dict(feats, used_before_comparison=True)
                ctx.count("class:graphs_used_and_restored_before_comparison")
            except Exception:
                pass
    call_both(ctx, x, y, tol, exp[0], exp[1], feats, case)
    if mut != "copy":
        ctx.nontrivial(gen.fingerprint(case))


def run_case(ctx, i, rng):
    cat = KINDS[i % 6]
    ctx.count("cat:" + cat)
    tol = float(10 ** rng.uniform(-12, -2))
    if rng.random() < 0.15:
        tol = 1e-6
        ctx.count("class:default_tol_argument_omitted")
    if cat == "graph":
        graph_case(ctx, rng, tol)
    else:
        elem_case(ctx, cat, rng, tol)


def pinned_f5(ctx):
    """F5: equals across types raised or returned True."""
    P = M.PoseSE2([1.0, 2.0], 0.5)
    Q = M.PoseR3([1.0, 2.0, 0.5])
    pairs = [("PoseR2 vs PoseR3", M.PoseR2([1.0, 2.0]), M.PoseR3([1.0, 2.0, 3.0])), ("PoseSE2 vs PoseSE3", P, M.PoseSE3([1.0, 2.0, 3.0], [0.0, 0.0, 0.0, 1.0])),
             ("PoseSE2 vs PoseR3 same numbers", P, Q),
             ("odometry edges carrying SE2 / R3 estimates", M.EdgeOdometry([1, 2], np.eye(3), P), M.EdgeOdometry([1, 2], np.eye(3), Q)),
             ("EdgeLandmark vs EdgeOdometry", M.EdgeLandmark([1, 2], np.eye(2), M.PoseR2([0.0, 1.0]), M.PoseSE2.identity(), 0), M.EdgeOdometry([1, 2], np.eye(2), M.PoseR2([0.0, 1.0])))]
    for name, a, b in pairs:
        call_both(ctx, a, b, 1e-6, False, False, {"category": "pinned_F5", "pair": name, "mutation": "class"}, {"pair": name})
    ctx.nontrivial("pinned-F5")


PINNED = [pinned_f5]
