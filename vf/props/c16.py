"""C16 - custom edges with numerical Jacobians optimize like analytic ones.

Programs: custom BaseEdge subclasses defined in the harness (vf/custom.py) that implement only calc_error (distance, range,
relative pose through public operators, pose / position priors, 3-vertex midpoint and constant-velocity constraints), each with
a twin whose calc_jacobians is the AD derivative of the reference version of the same error.
Oracle (Jacobian): |J_num - J_true| <= 1.5 |FD_ref - J_true| + 64 (eps/1e-6) (|e| + s), FD_ref the ideal forward difference of the
reference error with step 1e-6 through the reference boxplus.  Oracle (optimum): twin graphs reach the same optimum.
"""
import math

import numpy as np

from .. import custom, gen, model as M, oracles as O, refmodel as R
from ..runner import Skip

RULE = ("cases from rng(seed, 16, 0, i): 4 of 5 cases evaluate BaseEdge.calc_jacobians on one custom edge (7 error families x pose types r2/r3/se2/se3, poses with |t| up to 1e3, "
        "generic rotations, a fifth of them with a bit-exactly zero residual; vertices sometimes flagged fixed; a fifth of the custom edges configure their own step 1e-5..1e-8 (the bound then uses that step); sometimes after an unrelated differentiation was aborted by an exception inside its error function) and on built-in odometry/landmark edges; 1 of 5 optimizes a cluster graph whose custom edges use numerical Jacobians and its AD twin "
        "(tol=1e-12, max_iter=50) inside the C05 neighbourhood. distinct = fingerprint of the edge operands / spec; non-trivial = Jacobian with a non-zero rotational block "
        "or twin graphs that moved by > 1e-6."
        " later additions: held Jacobians stay valid, optimum-shift tolerance derived from the ideal forward-difference error.")
REQ = ["eval:returned-jacobians-stay-valid", "eval:numerical-jacobian-accuracy", "eval:twin-optimum-agrees", "eval:twin-chi2-agrees"] + ["family:" + n for n in custom.TYPES if n not in ("faulty", "robustprior")] + ["family:builtin-odometry", "family:builtin-landmark",
                                                                                                                          "class:ternary", "class:unary", "kind:se3", "kind:se2", "class:exactly_zero_residual", "class:aliased_pose_objects", "class:evaluated_again_after_edits", "class:fixed_vertex", "class:edge_configures_its_own_step", "class:earlier_differentiation_aborted_by_edge_fault"]
PLAN = {
    "quick": {"cases": 2500, "soft_s": 80, "min_nontrivial": 600, "require": REQ},
    "thorough": {"cases": 120000, "soft_s": 1400, "min_nontrivial": 30000, "require": REQ},
}
ASSUMPTIONS = ["smooth domain only: distances > 0.2, SE(2) angular errors away from +-pi, SE(3) error quaternions with w > 0.3"]
NT = {"r2": 2, "r3": 3, "se2": 2, "se3": 3}
H = 1e-6


def make_custom_edge(rng, name, k, scale):
    def P():
        p = gen.mild_pose(rng, k, scale)
        return gen.normalize_pose(k, p)
    nt = NT[k]
    if name == "prior":
        ps = [P()]
        z = gen.perturb(rng, k, ps[0], 0.2, 0.2)
        e = {"type": "custom:prior", "ids": [1], "info": gen.spd(rng, R.CD[k], 10).tolist(), "est": z, "est_kind": k}
    elif name == "posprior":
        ps = [P()]
        e = {"type": "custom:posprior", "ids": [1], "info": gen.spd(rng, nt, 10).tolist(), "est": [x + rng.normal() for x in ps[0][:nt]], "est_kind": "array"}
    elif name == "distance":
        ps = [P(), P()]
        if math.dist(ps[0][:nt], ps[1][:nt]) < 0.2:
            raise Skip("distance below 0.2")
        e = {"type": "custom:distance", "ids": [1, 2], "info": [[2.0]], "est": [float(rng.uniform(0.5, 5))], "est_kind": "scalar"}
    elif name == "range":
        kp = R.POINT_OF[k]
        ps = [P(), gen.mild_pose(rng, kp, scale)]
        if math.dist(ps[0][:nt], ps[1][:nt]) < 0.2:
            raise Skip("distance below 0.2")
        e = {"type": "custom:range", "ids": [1, 2], "info": [[2.0]], "est": [float(rng.uniform(0.5, 5))], "est_kind": "scalar", "kinds": [k, kp]}
    elif name == "relpose":
        ps = [P(), P()]
        z = gen.perturb(rng, k, R.vals(R.ominus(k, ps[1], ps[0])), 0.2, 0.2)
        e = {"type": "custom:relpose", "ids": [1, 2], "info": gen.spd(rng, R.CD[k], 10).tolist(), "est": z, "est_kind": k}
    elif name == "midpoint":
        ps = [P(), P(), P()]
        e = {"type": "custom:midpoint", "ids": [1, 2, 3], "info": gen.spd(rng, nt, 10).tolist(), "est": [float(x) for x in rng.normal(size=nt)], "est_kind": "array"}
    else:
        a = P()
        b = gen.perturb(rng, k, R.vals(R.oplus(k, a, gen.mild_pose(rng, k, 1.0) if k in ("r2", "r3") else gen.perturb(rng, k, R.identity(k), 1.0, 0.4))), 0, 0)
        c = gen.perturb(rng, k, R.vals(R.oplus(k, b, R.vals(R.ominus(k, b, a)))), 0.2, 0.15)
        ps = [a, gen.normalize_pose(k, b), gen.normalize_pose(k, c)]
        e = {"type": "custom:constvel", "ids": [1, 2, 3], "info": gen.spd(rng, R.CD[k], 10).tolist(), "est": [float(x) * 0.05 for x in rng.normal(size=R.CD[k])], "est_kind": "array"}
    kinds = e.pop("kinds", [k] * len(ps))
    edge = M.build_edge(e)
    edge.vertices = [M.Vertex(j + 1, M.mkpose(kk, p)) for j, (kk, p) in enumerate(zip(kinds, ps))]
    return edge, e, ps, kinds


def smooth_domain(e, ref_err):
    for r in M.angle_rows(e):
        if abs(ref_err[r]) > math.pi - 0.05:
            return False
    if M.rot_rows(e):
        v = ref_err[M.rot_rows(e)]
        if float(np.linalg.norm(v)) > 0.95:
            return False
    return True


def jacobian_check(ctx, e, fam, case):
    if not O.edge_in_domain(e):
        raise Skip("out of domain")
    ks = M.edge_kinds(e)
    P = [M.fl(v.pose) for v in e.vertices]
    f = M.edge_ref_fn(e)
    ref_err, Jtrue = M.edge_ref_jacobians(e)
    if not smooth_domain(e, ref_err):
        raise Skip("near a discontinuity of the error")
    with np.errstate(all="ignore"):
        real_err = np.atleast_1d(np.asarray(e.calc_error(), dtype=float))
        Jnum = M.BaseEdge.calc_jacobians(e)
    sig = M.sigma_vector(e, real_err, ref_err)
    # a forward difference perturbs the *absolute* coordinates by 1e-6: its round-off is eps x |absolute position| / 1e-6, however small the residual is
    s = max([O.edge_scale(e)] + [R.tmag(kk, pp) for kk, pp in zip(ks, P)])
    if not isinstance(Jnum, (list, tuple)) or len(Jnum) != len(ks):
        ctx.check("numerical-jacobian-accuracy", False, {"family": fam, "why": "one Jacobian per vertex"}, None, case)
        return
    e0 = np.array(R.vals(f(P)))
    H = float(getattr(e, "_vf_step", 1e-6))  # the documented step, unless the harness itself configured another one on this edge
    for i, k in enumerate(ks):
        J = np.asarray(Jnum[i], dtype=float)
        c = R.CD[k]
        if J.shape != (len(ref_err), c):
            ctx.check("numerical-jacobian-accuracy", False, {"family": fam, "why": "shape", "vertex": i}, {"shape": J.shape}, case)
            continue
        FD = np.zeros_like(Jtrue[i])
        for d in range(c):
            dv = [0.0] * c
            dv[d] = H
            Q = list(P)
            Q[i] = R.vals(R.box(k, P[i], dv))
            FD[:, d] = (np.array(R.vals(f(Q))) - e0) / H
        Jt = Jtrue[i] * sig[:, None]
        FDs = FD * sig[:, None]
        bound = 1.5 * np.abs(FDs - Jt) + 64 * (R.EPS / H) * (float(np.abs(ref_err).max()) + s)
        diff = np.abs(J - Jt)
        rr = M.rot_rows(e)
        if rr and float(np.abs(ref_err[rr]).max()) < 1e-9 and float(np.abs(real_err[rr]).max()) < 1e-9 and not np.all(diff <= bound):
            # vanishing rotational error: its value cannot tell the sign relation between the error quaternion of the real operators and the
            # Hamilton one of the reference (q and -q are the same rotation) - accept the derivative under either sign
            alt = sig.copy()
            alt[rr] = -alt[rr]
            if np.all(np.abs(J - Jtrue[i] * alt[:, None]) <= bound):
                Jt, FDs = Jtrue[i] * alt[:, None], FD * alt[:, None]
                diff = np.abs(J - Jt)
                ctx.count("sign_relation_undetermined_by_zero_rotational_error")
        with np.errstate(all="ignore"):
            ctx.margin("numerical-jacobian-accuracy", float((diff / bound).max()))
        ctx.check("numerical-jacobian-accuracy", bool(np.all(diff <= bound)), {"family": fam, "kind": k, "vertex": i, "n_vertices": len(ks)},
                  {"J_num": J, "J_true": Jt, "FD_ref": FDs, "worst": float((diff - bound).max())}, case)


def ideal_fd_error(e):
    """Per vertex: |FD_ref - J_true| (ideal forward difference of the reference error with the edge's step, through the reference boxplus) plus the
    round-off term of jacobian_check - what a correct numerical Jacobian may be off by.  None outside the smooth domain."""
    if not O.edge_in_domain(e):
        return None
    ks = M.edge_kinds(e)
    P = [M.fl(v.pose) for v in e.vertices]
    f = M.edge_ref_fn(e)
    ref_err, Jtrue = M.edge_ref_jacobians(e)
    if not smooth_domain(e, ref_err):
        return None
    h = float(getattr(e, "_vf_step", 1e-6))
    s = max([O.edge_scale(e)] + [R.tmag(kk, pp) for kk, pp in zip(ks, P)])
    e0 = np.array(R.vals(f(P)))
    out = []
    for i, k in enumerate(ks):
        c = R.CD[k]
        FD = np.zeros_like(Jtrue[i])
        for d in range(c):
            dv = [0.0] * c
            dv[d] = h
            Q = list(P)
            Q[i] = R.vals(R.box(k, P[i], dv))
            FD[:, d] = (np.array(R.vals(f(Q))) - e0) / h
        out.append(1.5 * np.abs(FD - Jtrue[i]) + 64 * (R.EPS / h) * (float(np.abs(ref_err).max()) + s))
    return out


def optimum_shift_bound(g_exact):
    """How far the fixed point of Gauss-Newton with *numerical* Jacobians may sit from the true optimum: it solves J_num^T Omega e = 0 instead of
    J^T Omega e = 0, i.e. the true gradient there is (J - J_num)^T Omega e; one Newton step with the reference Hessian turns that into a distance.
    Evaluated at the exact twin's optimum.  Returns a float (inf when it cannot be evaluated)."""
    try:
        H, b, chi_ref, idx, nn = M.assemble(g_exact, "ref")
    except Exception:
        return math.inf
    gamma = np.zeros(nn)
    for e in g_exact._edges:
        if not isinstance(e, custom._Custom):
            continue
        dJ = ideal_fd_error(e)
        if dJ is None:
            return math.inf
        with np.errstate(all="ignore"):
            w = np.abs(np.asarray(e.information, dtype=float)) @ np.abs(np.atleast_1d(np.asarray(e.calc_error(), dtype=float)))
        for v, D in zip(e.vertices, dJ):
            i0 = idx[id(v)]
            gamma[i0:i0 + D.shape[1]] += D.T @ w
    free = M.free_mask(g_exact, nn, idx)
    if not free.any():
        return 0.0
    Hf = H[np.ix_(free, free)]
    try:
        ev = np.linalg.eigvalsh((Hf + Hf.T) / 2)
    except Exception:
        return math.inf
    if not (ev.min() > 0):
        return math.inf
    return float(np.linalg.norm(gamma[free]) / ev.min())


def direct_case(ctx, i, rng):
    fams = [n for n in custom.TYPES if n not in ("faulty", "robustprior")] + ["builtin-odometry", "builtin-landmark"]
    fam = fams[(i // 5) % len(fams)]
    k = R.KINDS[(i // 45) % 4] if False else str(rng.choice(R.KINDS))
    scale = float(10 ** rng.uniform(0, 3))
    if fam.startswith("builtin"):
        from . import c01

        labels = set()
        e, spec = c01.make_edge(rng, "odo" if fam.endswith("odometry") else "lm", k, 3.0, labels)
        ps = [M.fl(v.pose) for v in e.vertices]
    else:
        e, spec, ps, kinds = make_custom_edge(rng, fam, k, scale)
        if rng.random() < 0.2:
            # a measurement that agrees bit-exactly with the current poses: the residual is exactly zero at the linearisation point,
            # its derivative is not (dead-reckoned initial guesses produce this)
            with np.errstate(all="ignore"):
                if fam == "prior":
                    e.estimate = e.vertices[0].pose.copy()
                    spec = dict(spec, est=M.fl(e.estimate))
                elif fam != "relpose":
                    err0 = np.atleast_1d(np.asarray(e.calc_error(), dtype=float))
                    e.estimate = float(e.estimate + err0[0]) if np.ndim(e.estimate) == 0 else np.asarray(e.estimate, dtype=float) + err0
                    spec = dict(spec, est=M.fl(e.estimate))
                if not np.any(np.atleast_1d(e.calc_error())):
                    ctx.count("class:exactly_zero_residual")
    case = {"family": fam, "kind": k, "edge": spec, "poses": ps}
    u = rng.random()
    if not fam.startswith("builtin") and u < 0.2:
        # aliasing: the measurement *is* the vertex's pose object (PriorEdge([i], info, v.pose)), or two vertices of an n-ary edge share one pose object
        if fam == "prior":
            e.estimate = e.vertices[0].pose
            case["aliasing"] = "estimate is the vertex pose object"
        elif len(e.vertices) >= 2 and M.kind(e.vertices[0].pose) == M.kind(e.vertices[-1].pose) and fam in ("midpoint",):
            e.vertices[-1].pose = e.vertices[0].pose
            case["aliasing"] = "two vertices share one pose object"
        if "aliasing" in case:
            ctx.count("class:aliased_pose_objects")
            case["poses"] = [M.fl(v.pose) for v in e.vertices]
    elif u < 0.4:
        # history: evaluate once, then change the measurement / a pose in place on the same edge object, then evaluate again
        with np.errstate(all="ignore"):
            try:
                M.BaseEdge.calc_jacobians(e)
                e.calc_chi2_gradient_hessian()
            except Exception:
                pass
        from . import c01

        hist = []
        for _ in range(int(rng.integers(1, 3))):
            if fam.startswith("builtin") or isinstance(e.estimate, M.BasePose):
                hist.append(c01.mutate_operand(rng, e))
            else:
                j = int(rng.integers(len(e.vertices)))
                kk = M.kind(e.vertices[j].pose)
                e.vertices[j].pose[:] = M.fl(M.mkpose(kk, gen.normalize_pose(kk, gen.mild_pose(rng, kk, scale))))
                hist.append("vertex%d:in-place" % j)
                if np.ndim(e.estimate) > 0 and rng.random() < 0.5:
                    e.estimate = np.asarray(e.estimate, dtype=float) + rng.normal(size=np.shape(e.estimate)) * 0.1
                    hist.append("estimate:replace")
        case["history"] = hist
        case["poses"] = [M.fl(v.pose) for v in e.vertices]
        ctx.count("class:evaluated_again_after_edits")
    if rng.random() < 0.3:
        # vertices held fixed by the optimizer still have a derivative: the fixed flag concerns the solver, not the edge
        flags = [bool(rng.random() < 0.6) for _ in e.vertices]
        for v, fl_ in zip(e.vertices, flags):
            v.fixed = fl_
        case["fixed"] = flags
        if any(flags):
            ctx.count("class:fixed_vertex")
    if not fam.startswith("builtin") and rng.random() < 0.2:
        # the edge (instance or a subclass of its type) configures its own forward-difference step
        h = float(rng.choice([1e-5, 1e-7, 3e-8, 1e-8]))
        if rng.random() < 0.5:
            e._NUMERICAL_DIFFERENTIATION_EPSILON = h
        else:
            e.__class__ = type("Stepped" + type(e).__name__, (type(e),), {"_NUMERICAL_DIFFERENTIATION_EPSILON": h})
        case["step"] = h
        e._vf_step = h
        ctx.count("class:edge_configures_its_own_step")
    if rng.random() < 0.15:
        # history: an earlier numerical differentiation of an unrelated edge was aborted by an exception raised inside its error function
        kk = str(rng.choice(R.KINDS))
        fv = M.Vertex(77, M.mkpose(kk, gen.normalize_pose(kk, gen.mild_pose(rng, kk, 3.0))))
        fe = custom.FaultyPositionPrior([77], np.eye(NT[kk]), np.zeros(NT[kk]), [fv])
        fe.fail_at = int(rng.integers(2, R.CD[kk] + 2))
        try:
            M.BaseEdge.calc_jacobians(fe)
        except RuntimeError:
            ctx.count("class:earlier_differentiation_aborted_by_edge_fault")
        case["earlier_fault"] = {"kind": kk, "fail_at": fe.fail_at}
    jacobian_check(ctx, e, fam, case)
    if i % 4 == 0 and not fam.startswith("builtin"):
        # a client that collects the numerical Jacobians of several edges before using them (a composite edge stacking inner edges, its own solver):
        # what one call returned must not change when other edges are differentiated afterwards
        try:
            with np.errstate(all="ignore"):
                held = M.BaseEdge.calc_jacobians(e)
                saved = [np.array(J, dtype=float, copy=True) for J in held]
                for _ in range(2):
                    e2, _s2, _p2, _k2 = make_custom_edge(rng, fam, k, scale)
                    M.BaseEdge.calc_jacobians(e2)
            same = len(held) == len(saved) and all(np.array_equal(np.asarray(a), b, equal_nan=True) for a, b in zip(held, saved))
            ctx.check("returned-jacobians-stay-valid", same, {"family": fam, "kind": k}, {"note": "arrays returned by the numerical calc_jacobians changed after other edges were differentiated"}, case)
        except Skip:
            pass
    ctx.count("family:" + fam)
    ctx.count("kind:" + k)
    if len(e.vertices) == 3:
        ctx.count("class:ternary")
    if len(e.vertices) == 1:
        ctx.count("class:unary")
    ctx.nontrivial(gen.fingerprint(case))
    ctx.sample({"family": fam, "kind": k, "poses": ps, "estimate": spec["est"]}, cap=2)


def twin_case(ctx, i, rng):
    kinds = None if rng.random() < 0.5 else [str(rng.choice(["se2", "se3"]))]
    spec, labels = gen.cluster_graph(rng, kinds=kinds, size=(3, 7), init_t=0.15, init_r=0.08, noise_t=0.03, noise_r=0.01, numeric_custom=True, cond=30.0)
    if not any(e["type"].startswith("custom:") for e in spec["edges"]):
        raise Skip("no custom edge generated")
    twin = gen.copy_spec(spec)
    for e in twin["edges"]:
        if e["type"].startswith("custom:"):
            e["numeric"] = False
    g, gt = M.build(spec), M.build(twin)
    case = {"graph": {k: v for k, v in spec.items() if k != "truth_by_id"}}
    try:
        r1 = M.quiet_optimize(g, tol=1e-12, max_iter=50, fix_first_pose=False)
        r2 = M.quiet_optimize(gt, tol=1e-12, max_iter=50, fix_first_pose=False)
    except Exception as ex:
        ctx.check("twin-optimum-agrees", False, {"exception": type(ex).__name__}, {"message": str(ex)[:300]}, case)
        return
    if not (r2.final_chi2 is not None and math.isfinite(r2.final_chi2)):
        raise Skip("exact-Jacobian twin did not stay finite (outside the neighbourhood)")
    if not r2.converged:
        raise Skip("exact-Jacobian twin did not converge within 50 iterations (outside the neighbourhood: no optimum to compare with)")
    # "the same optimum" presupposes an isolated one: distance-only constraints can leave a direction (almost) free, the minimisers then form a valley
    # along which two correct optimizers stop at different points with the same chi2
    try:
        H_o, _b_o, _c_o, idx_o, nn_o = M.assemble(gt, "ref")
        free_o = M.free_mask(gt, nn_o, idx_o)
        ev_o = np.linalg.eigvalsh((H_o[np.ix_(free_o, free_o)] + H_o[np.ix_(free_o, free_o)].T) / 2) if free_o.any() else np.array([1.0])
        isolated = bool(ev_o.min() > 0 and ev_o.max() / ev_o.min() <= 1e8)
    except Exception:  # noqa: BLE001
        isolated = False
    if not r1.converged and (r2.num_iterations or 0) > 25:
        # a large-residual problem on which even exact Gauss-Newton needs dozens of iterations (linear convergence with a rate close to 1): where the
        # numerical twin stands after 50 iterations says nothing about where it is heading
        raise Skip("slowly converging problem (exact twin needed > 25 iterations) and the numerical twin has not settled within 50: no verdict")
    if not isolated:
        raise Skip("the optimum is not isolated (reduced Hessian at the exact twin's optimum has condition number > 1e8): no unique optimum to compare")
    scene = max(1.0, max(R.tmag(v["kind"], v["pose"]) for v in spec["vertices"]))
    worst = 0.0
    moved = 0.0
    for v, w, v0 in zip(g._vertices, gt._vertices, spec["vertices"]):
        kk = M.kind(v.pose)
        p, q = M.fl(v.pose), M.fl(w.pose)
        if not all(math.isfinite(x) for x in p):
            worst = math.inf
            break
        dt, dr = M.pose_distance(kk, p, q)
        worst = max(worst, dt / scene, dr)
        d0 = M.pose_distance(kk, q, M.fl(M.mkpose(kk, v0["pose"])))
        moved = max(moved, d0[0], d0[1])
    fams = sorted({e["type"] for e in spec["edges"] if e["type"].startswith("custom:")})
    # 1e-4 (relative to the scene) covers well-conditioned graphs; where weak information or large residuals make the optimum sensitive, the allowance is
    # what the accuracy of a correct forward difference implies (see optimum_shift_bound), never more than 1e-2
    shift = optimum_shift_bound(gt)
    tol_opt = max(1e-4, min(4.0 * shift / scene, 1e-2)) if math.isfinite(shift) else 1e-4
    ctx.margin("twin-optimum-agrees", worst / tol_opt)
    ctx.check("twin-optimum-agrees", worst <= tol_opt, {"families": "+".join(fams)}, {"worst": worst, "tol": tol_opt, "shift_bound": shift, "iterations": [r1.num_iterations, r2.num_iterations],
                                                                               "chi2": [r1.final_chi2, r2.final_chi2]}, case)
    c1, c2 = r1.final_chi2, r2.final_chi2
    # chi2 is stationary at the optimum: chi2(x* + d) = chi2* + d^T H d + o(|d|^2) with H = sum J^T Omega J, so the two final chi2 values may differ
    # by the second-order term of the (separately bounded) pose difference d, measured here with the reference Hessian
    quad = 0.0
    if worst < math.inf:
        H, b, chi_ref, idx, nn = M.assemble(gt, "ref")
        d = np.zeros(nn)
        for v, w in zip(g._vertices, gt._vertices):
            kk = M.kind(w.pose)
            inc = M.applied_increment(kk, M.fl(w.pose), M.fl(v.pose))
            d[idx[id(w)]: idx[id(w)] + R.CD[kk]] = inc
        quad = float(d @ H @ d) + 2.0 * abs(float(b @ d))
    ctx.check("twin-chi2-agrees", c1 is not None and abs(c1 - c2) <= 4.0 * quad + 1e-9 * max(abs(c2), 1e-12) + 1e-18, {"families": "+".join(fams)},
              {"chi2": [c1, c2], "second_order_term": quad}, case)
    if moved > 1e-6:
        ctx.nontrivial(gen.fingerprint(spec))
    ctx.sample({"twin_graph": True, "custom_edges": fams, "n_vertices": len(spec["vertices"]), "chi2": [c1, c2], "worst_pose_difference": worst}, cap=2)


def run_case(ctx, i, rng):
    if i % 5 == 4:
        twin_case(ctx, i, rng)
    else:
        direct_case(ctx, i, rng)
