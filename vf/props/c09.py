"""C09 - pose composition is the rigid-motion group.

Monitor: post-conditions on the pose operators (+, -, inverse, identity, to_matrix, from_matrix, +=, copy, boxplus) of
the four pose classes, (a) on hostile operands driven directly and (b) in situ through wrappers attached to
PoseSE2/PoseSE3.__add__/__sub__/inverse while the real optimizer runs.
Oracle: independent reference group model (Hamilton products / homogeneous matrices), matrix homomorphism, group axioms.
"""
import math

import numpy as np

from .. import gen, model as M, oracles as O, refmodel as R
from ..monitors import Monitor, first_n_then_every

RELATIONS = ["oplus-vs-reference", "matrix-homomorphism", "ominus-vs-reference", "ominus-is-inverse-oplus", "inverse-two-sided", "identity-two-sided", "associativity",
             "pose-oplus-point", "boxplus-is-oplus-of-compact", "to_matrix-vs-reference", "from_matrix-roundtrip", "iadd-rebinds", "copy-independent", "accessors-consistent"]
RULE = ("cases from rng(seed, 9, 0, i): pose kind = i mod 4; operands a,b,c, a point and an increment from hostile classes (translations to 1e4/1e6, angles at +-pi, shifted "
        "by 2 pi k, huge; quaternions w<0, w=0, 180 deg, near identity; increments incl. rotational norm exactly 1); 14 relations evaluated per case, and again after the operand objects were modified in place (every 3rd case); every 16th case is an in-situ optimizer run with sampled operator "
        "observations. distinct = fingerprint of the operands; non-trivial = a and b both have non-zero translation and (SE types) non-identity rotation."
        " later additions: partly coinciding operands, generic array access / copy-module copies, orientation of points, process-wide settings after an optimizer run.")
REQ = ["eval:" + r for r in RELATIONS if r != "from_matrix-roundtrip"] + ["eval:from_matrix-roundtrip", "class:kind:se3", "class:kind:se2", "class:q:wneg", "class:q:wzero", "class:a:nearpi_in",
                                                                     "insitu_operator_calls_observed", "class:operands_modified_in_place", "class:increment_rotation_norm_exactly_1", "class:integer_dtype_increment", "class:q:single_axis"]
PLAN = {
    "quick": {"cases": 8000, "soft_s": 60, "min_nontrivial": 2000, "require": REQ},
    "thorough": {"cases": 600000, "soft_s": 1200, "min_nontrivial": 100000, "require": REQ},
}
ASSUMPTIONS = ["SE(3) operands are unit quaternions; increments have rotational part of norm <= 1"]
NT = {"r2": 2, "r3": 3, "se2": 2, "se3": 3}


def pose_close(ctx, name, k, real, ref, s, feats, case, rot_scale=1.0):
    """Compare a real pose (or array) with a reference list: translation 64 eps s, rotation 64 eps (up to sign / mod 2 pi)."""
    got = M.fl(real)
    ref = R.vals(ref)
    if len(got) != len(ref):
        return ctx.check(name, False, feats, {"why": "length", "got": got, "expected": ref}, case)
    nt = NT[k]
    ttol = 64 * R.EPS * s
    rtol = 64 * R.EPS * rot_scale
    dt = max(abs(x - y) for x, y in zip(got[:nt], ref[:nt])) if nt else 0.0
    dr = 0.0
    if k == "se2" and len(got) == 3:
        dr = R.ang_diff(got[2], ref[2])
        if not (-math.pi - 4 * R.EPS <= got[2] <= math.pi + 4 * R.EPS):
            return ctx.check(name, False, feats, {"why": "angle outside [-pi, pi]", "got": got}, case)
    elif k == "se3" and len(got) == 7:
        qa, qb = np.array(got[3:]), np.array(ref[3:])
        dr = float(min(np.abs(qa - qb).max(), np.abs(qa + qb).max()))
    ok = (dt <= ttol) and (dr <= rtol)
    ctx.margin(name, max(dt / ttol, dr / rtol))
    return ctx.check(name, ok, feats, {"got": got, "expected": ref, "dt": dt, "dr": dr, "ttol": ttol, "rtol": rtol}, case)


def direct_case(ctx, i, rng):
    k = R.KINDS[i % 4]
    maxexp = 4.0 if ctx.tier == "quick" else 6.0
    labels = set()
    ops = []
    for _ in range(3):
        p, l = gen.pose(rng, k, maxexp)
        labels |= l
        ops.append(p)
    if rng.random() < 0.2:
        # operands that coincide in part (equal values in distinct objects)
        ops[1], how = gen.coincide(rng, k, ops[0], ops[1])
        ctx.count("class:operands_coincide:" + how)
        if rng.random() < 0.5:
            ops[2], how = gen.coincide(rng, k, ops[int(rng.integers(2))], ops[2])
            ctx.count("class:operands_coincide:" + how)
    A, B, C = [M.mkpose(k, p) for p in ops]
    ctx.count("class:kind:" + k)
    for lab in labels:
        ctx.count("class:" + lab)
    case, nontriv = relations(ctx, k, A, B, C, rng, maxexp, {"kind": k})
    if i % 3 == 0:
        # history: the same pose objects, modified in place, must behave like fresh poses with the new values
        for X in (A, B):
            new, _ = gen.pose(rng, k, maxexp)
            vals_new = np.array(M.fl(M.mkpose(k, new)))
            if rng.random() < 0.5:
                X[:] = vals_new
            else:
                np.copyto(np.asarray(X), vals_new)  # a write that does not go through the pose object's own __setitem__
        ctx.count("class:operands_modified_in_place")
        relations(ctx, k, A, B, C, rng, maxexp, {"kind": k, "after_inplace_modification": True})
    if nontriv:
        ctx.nontrivial(gen.fingerprint(case))
    ctx.sample(case, cap=2)


def unit_increment(rng):
    """A rotational increment whose norm, as numpy computes it, is exactly 1.0 (the boundary of the stated domain: a half turn)."""
    if rng.random() < 0.4:
        v = np.zeros(3)
        v[rng.integers(3)] = rng.choice([-1.0, 1.0])
        return v
    for _ in range(50):
        v = rng.normal(size=3)
        v /= np.linalg.norm(v)
        if np.linalg.norm(v) == 1.0 and float(v @ v) <= 1.0:
            return v
    v = np.zeros(3)
    v[0] = 1.0
    return v


def relations(ctx, k, A, B, C, rng, maxexp, feats):
    a, b, c = M.fl(A), M.fl(B), M.fl(C)  # live numeric content (SE(2) angles wrapped by the constructor)
    ta, tb, tc = R.tmag(k, a), R.tmag(k, b), R.tmag(k, c)
    case = {"kind": k, "a": a, "b": b, "c": c}
    if feats.get("after_inplace_modification"):
        case["after_inplace_modification"] = True
    cls = M.CLS[k]
    with np.errstate(all="ignore"):
        # 1 oplus
        AB = A + B
        ctx.check("result-type", type(AB) is cls, dict(feats, op="+"), {"type": type(AB).__name__}, case)
        pose_close(ctx, "oplus-vs-reference", k, AB, R.oplus(k, a, b), 1 + ta + tb, feats, case)
        # 2 matrix homomorphism (real to_matrix where it exists, reference matrix otherwise)
        if hasattr(A, "to_matrix"):
            Ma, Mb, Mab = A.to_matrix(), B.to_matrix(), AB.to_matrix()
        else:
            Ma, Mb, Mab = (np.array(R.matrix(k, M.fl(x))) for x in (A, B, AB))
        ctx.close("matrix-homomorphism", Mab, np.asarray(Ma) @ np.asarray(Mb), 64 * R.EPS * (1 + ta + tb), feats, None, case)
        # 3 ominus
        AmB = A - B
        ctx.check("result-type", type(AmB) is cls, dict(feats, op="-"), {"type": type(AmB).__name__}, case)
        pose_close(ctx, "ominus-vs-reference", k, AmB, R.ominus(k, a, b), 1 + ta + tb, feats, case)
        # 4 a (-) b = b^-1 (+) a  (both sides real)
        pose_close(ctx, "ominus-is-inverse-oplus", k, AmB, M.fl(B.inverse + A), 1 + ta + tb, feats, case)
        # 5 inverse two-sided (+ vs reference)
        Ai = A.inverse
        ctx.check("result-type", type(Ai) is cls, dict(feats, op="inverse"), {"type": type(Ai).__name__}, case)
        pose_close(ctx, "inverse-two-sided", k, Ai, R.inv(k, a), 1 + ta, dict(feats, side="vs-reference"), case)
        pose_close(ctx, "inverse-two-sided", k, A + Ai, R.identity(k), 1 + 2 * ta, dict(feats, side="right"), case)
        pose_close(ctx, "inverse-two-sided", k, Ai + A, R.identity(k), 1 + 2 * ta, dict(feats, side="left"), case)
        # 6 identity
        I = cls.identity()
        ctx.check("identity-two-sided", type(I) is cls and M.fl(I) == R.identity(k), dict(feats, side="value"), {"identity": M.fl(I)}, case)
        pose_close(ctx, "identity-two-sided", k, A + I, a, 1 + ta, dict(feats, side="right"), case)
        pose_close(ctx, "identity-two-sided", k, I + A, a, 1 + ta, dict(feats, side="left"), case)
        # an identity a client obtained earlier and used as a scratch pose (written in place) must not change what identity() returns afterwards
        I[0] = 5.0
        I[-1] = 0.25
        I2 = cls.identity()
        ctx.check("identity-two-sided", M.fl(I2) == R.identity(k) and I2 is not I, dict(feats, side="identity() after an earlier identity was written in place"), {"identity": M.fl(I2)}, case)
        # 7 associativity
        pose_close(ctx, "associativity", k, (A + B) + C, M.fl(A + (B + C)), 1 + ta + tb + tc, feats, case, rot_scale=2.0)
        # 8 pose (+) point
        kp = R.POINT_OF[k]
        pt, _ = gen.pose(rng, kp, maxexp)
        PT = M.mkpose(kp, pt)
        ipt = [float(int(x)) for x in np.clip(pt, -1e6, 1e6)]
        forms = [("pose-object", PT, pt), ("ndarray", np.array(pt, dtype=float), pt)]
        if k in ("se2", "se3"):
            forms.append(("ndarray-int64", np.array(ipt).astype(np.int64), ipt))  # whole-number coordinates handed over as an integer array
        for form, operand, pt in forms:
            if k in ("r2", "r3") and form == "ndarray":
                pass
            res = A + operand
            ctx.check("result-type", type(res) is M.CLS[kp], dict(feats, op="+point", form=form), {"type": type(res).__name__}, case)
            pose_close(ctx, "pose-oplus-point", kp, res, R.act(k, a, pt), 1 + ta + R.tmag(kp, pt), dict(feats, form=form), dict(case, point=pt))
        # 9 boxplus
        d, _ = gen.pose(rng, k if k != "se3" else "r3", min(maxexp, 2.0))
        if k == "se3":
            v = rng.normal(size=3)
            v *= float(rng.choice([1e-9, 1e-3, 0.1, 0.5, 0.9, 1.0 - 1e-12])) * rng.random() / np.linalg.norm(v)
            if rng.random() < 0.15:
                v = unit_increment(rng)
                ctx.count("class:increment_rotation_norm_exactly_1")
            d = d + [float(x) for x in v]
        if k == "se2":
            d[2] = float(np.clip(d[2], -1e3, 1e3))
        dv = np.array(d, dtype=float)
        bx_rot_scale = 1 + abs(d[2]) if k == "se2" else 1.0
        if k == "se3":
            # w = sqrt(1 - |v|^2) is ill-conditioned at |v| -> 1: a rounding error of a few eps in |v|^2 moves w by up to ~2 eps / w (at most ~sqrt(eps))
            w_ref = math.sqrt(max(0.0, 1.0 - float(np.dot(dv[3:], dv[3:]))))
            dw = min(4 * R.EPS / max(w_ref, 1e-300), 4 * math.sqrt(R.EPS))
            bx_rot_scale = 1.0 + dw / (64 * R.EPS)
        if k == "se2" and rng.random() < 0.2:
            d = [float(int(np.clip(x, -1e6, 1e6))) for x in d]
            dv = np.array(d).astype(np.int64)  # an integer-typed increment
            bx_rot_scale = 1 + abs(d[2])
            ctx.count("class:integer_dtype_increment")
        BX = A + dv
        ctx.check("result-type", type(BX) is cls, dict(feats, op="boxplus"), {"type": type(BX).__name__}, case)
        pose_close(ctx, "boxplus-is-oplus-of-compact", k, BX, R.box(k, a, d), 1 + ta + R.tmag(k, d), feats, dict(case, delta=d), rot_scale=bx_rot_scale)
        # the same through the real composition with the real pose built from the compact form
        Dp = M.mkpose(k, R.vals(R.from_compact(k, d)))
        pose_close(ctx, "boxplus-is-oplus-of-compact", k, BX, M.fl(A + Dp), 1 + ta + R.tmag(k, d), dict(feats, route="real-oplus"), dict(case, delta=d), rot_scale=bx_rot_scale)
        # 10 to_matrix
        if hasattr(A, "to_matrix"):
            ctx.close("to_matrix-vs-reference", A.to_matrix(), np.array(R.matrix(k, a)), 64 * R.EPS * (1 + ta), feats, None, case)
        else:
            ctx.count("to_matrix_not_defined_for_kind:" + k)
            ctx.check("to_matrix-vs-reference", True)
        # 11 from_matrix
        if hasattr(cls, "from_matrix"):
            back = cls.from_matrix(A.to_matrix())
            pose_close(ctx, "from_matrix-roundtrip", k, back, a, 1 + ta, feats, case, rot_scale=4.0)
            ctx.check("result-type", type(back) is cls, dict(feats, op="from_matrix"), {"type": type(back).__name__}, case)
        # 12 += rebinds and leaves the old object untouched
        P = M.mkpose(k, a) if k != "se2" else M.raw_se2(a)
        old = P
        before = M.fl(old)
        P += B
        ctx.check("iadd-rebinds", (P is not old) and M.fl(old) == before and type(P) is cls, feats, {"old_after": M.fl(old), "old_before": before, "same_object": P is old}, case)
        pose_close(ctx, "iadd-rebinds", k, P, M.fl(AB), 1 + ta + tb, dict(feats, part="value"), case)
        # 13 copy
        Cp = A.copy()
        okc = type(Cp) is cls and M.same_numbers(k, M.fl(Cp), a) and Cp is not A and not np.shares_memory(np.asarray(Cp), np.asarray(A))
        Cp[0] = 12345.678
        okc = okc and M.fl(A) == a
        ctx.check("copy-independent", okc, feats, {"copy": M.fl(Cp), "orig": M.fl(A)}, case)
        # 14 accessors
        okacc = list(map(float, A.to_array())) == a and list(map(float, A.to_compact())) == a[:R.CD[k]] and list(map(float, np.atleast_1d(A.position))) == a[:NT[k]]
        if k == "se2":
            okacc = okacc and float(A.orientation) == a[2]
        if k == "se3":
            okacc = okacc and list(map(float, A.orientation)) == a[3:]
        if k in ("r2", "r3"):
            okacc = okacc and float(A.orientation) == 0.0  # a point has no orientation: documented as 0.0
        # a pose is an array of its numbers: generic array access agrees with the accessors
        import copy as _copy

        okacc = okacc and len(A) == len(a) and [float(x) for x in A] == a and np.asarray(A, dtype=float).tolist() == a and [float(x) for x in A.tolist()] == a \
            and [float(x) for x in A[:NT[k]]] == a[:NT[k]] and float(A[-1]) == a[-1]
        for Cc in (_copy.copy(A), _copy.deepcopy(A)):
            okacc = okacc and type(Cc) is cls and M.fl(Cc) == a and not np.shares_memory(np.asarray(Cc), np.asarray(A))
        ctx.check("accessors-consistent", okacc, feats, None, case)
    nontriv = ta > 0 and tb > 0
    if k == "se2":
        nontriv = nontriv and abs(a[2]) > 1e-12 and abs(b[2]) > 1e-12
    if k == "se3":
        nontriv = nontriv and abs(abs(a[6]) - 1) > 1e-12 and abs(abs(b[6]) - 1) > 1e-12
    return case, nontriv


def insitu_case(ctx, i, rng):
    k = "se2" if (i // 16) % 2 == 0 else "se3"
    spec = gen.trajectory_graph(rng, k, int(rng.integers(3, 8)), n_loops=2, n_lm=2, meas_t=0.05, meas_r=0.03, init_t=0.3, init_r=0.2,
                                start=gen.normalize_pose(k, gen.mild_pose(rng, k, 50.0)))
    g = M.build(spec)
    seen = [0]
    cls = M.CLS[k]

    def dom(p):
        return not isinstance(p, M.PoseSE3) or O.unit_defect(M.fl(p)) <= 64 * R.EPS

    def after_add(args, kwargs, result, exc, token):
        a, b = args
        if exc is not None or not dom(a):
            return
        if isinstance(b, M.BasePose) and not dom(b):
            return
        la, lb = M.fl(a), M.fl(b)
        if not all(math.isfinite(x) for x in lb):
            return  # a diverged run feeds non-finite increments / points to the operators: outside the operators' domain
        seen[0] += 1
        if type(b) is cls:
            exp, kk = R.oplus(k, la, lb), k
        elif isinstance(b, (M.PoseR2, M.PoseR3)) or len(lb) == NT[k]:
            exp, kk = R.act(k, la, lb), R.POINT_OF[k]
        elif len(lb) == R.CD[k]:
            if k == "se3" and np.linalg.norm(lb[3:]) > 1.0:
                return
            exp, kk = R.box(k, la, lb), k
        else:
            return
        pose_close(ctx, "oplus-vs-reference", kk, result, exp, 1 + R.tmag(k, la) + max(abs(x) for x in lb[:NT[k]]), {"kind": k, "where": "in-situ"},
                   {"a": la, "b": lb}, rot_scale=1 + (abs(lb[2]) if k == "se2" and len(lb) == 3 else 0))

    def after_sub(args, kwargs, result, exc, token):
        a, b = args
        if exc is not None or not (dom(a) and dom(b)) or type(b) is not cls:
            return
        seen[0] += 1
        la, lb = M.fl(a), M.fl(b)
        pose_close(ctx, "ominus-vs-reference", k, result, R.ominus(k, la, lb), 1 + R.tmag(k, la) + R.tmag(k, lb), {"kind": k, "where": "in-situ"}, {"a": la, "b": lb})

    def after_inv(args, kwargs, result, exc, token):
        a = args[0]
        if exc is not None or not dom(a):
            return
        seen[0] += 1
        la = M.fl(a)
        pose_close(ctx, "inverse-two-sided", k, result, R.inv(k, la), 1 + R.tmag(k, la), {"kind": k, "where": "in-situ", "side": "vs-reference"}, {"a": la})

    with Monitor() as mon:
        samp = first_n_then_every(60, 7)
        mon.attach(cls, "__add__", after=after_add, sample=samp)
        mon.attach(cls, "__sub__", after=after_sub, sample=samp)
        mon.attach(cls, "inverse", after=after_inv, sample=samp)
        try:
            del M.PROCESS_LEAKS[:]
            M.quiet_optimize(g, max_iter=int(rng.choice([3, 3, 20])), tol=float(rng.choice([0.0, 1e-4])))
            # pose arithmetic after an optimizer run happens in the same process: the run must leave numpy's floating-point error mode (and the other
            # process-wide settings) as it found them, or compositions with tiny components start raising instead of returning the group element
            ctx.check("oplus-vs-reference", not M.PROCESS_LEAKS, {"kind": k, "where": "process-wide arithmetic mode after an optimizer run"}, {"changed": M.PROCESS_LEAKS[:2]}, None)
            del M.PROCESS_LEAKS[:]
        except Exception as ex:
            ctx.count("insitu_optimizer_exception:" + type(ex).__name__)
    ctx.count("insitu_operator_calls_observed", seen[0])
    if seen[0]:
        ctx.nontrivial(gen.fingerprint(spec))


def run_case(ctx, i, rng):
    if i % 16 == 15:
        insitu_case(ctx, i, rng)
    else:
        direct_case(ctx, i, rng)


def extra_stage(tier, seed, tmp):
    """thorough tier: the repository's own test-suite as a workload under this property's monitors."""
    if tier != "thorough":
        return None
    from ..runner import suite_under_monitors

    return suite_under_monitors("C09", seed, tmp)
