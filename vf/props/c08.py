"""C08 - results do not depend on representation choices of the same physical graph.

Events: pairs of executions (G, rho(G)) for seven re-representations rho; chi2 of both, vertex poses after
optimize(max_iter=K, tol=0), K=1..4, and after optimize(tol=1e-10, max_iter=50).
Oracle: chi2 equal (scaled by c for information scaling) within a propagated rounding bound; corresponding vertices are the
same physical pose (rotations up to quaternion sign / 2 pi) within 200 eps cond (1+scene) 4^K.
"""
import math

import numpy as np

from .. import gen, model as M, oracles as O, refmodel as R
from ..runner import Skip

RELS = ["permute_vertices", "permute_edges", "relabel_ids", "shift_2pi", "negate_quaternions", "split_edge", "scale_information"]
RULE = ("cases from rng(seed, 8, 0, i): relation = i mod 7 of " + ", ".join(RELS) + "; graphs: cluster graphs (mixed pose types, landmarks with rotated offsets, parallel / "
        "reversed edges) and trajectory graphs; information block-diagonal or with translation-rotation cross terms; K in 1..4 iterations or a run to convergence, fix_first_pose in {True, False}; for 30 % of the K-iteration cases the re-represented graph is also cloned after one iteration (copy.deepcopy, pickle round trip, deep copy of its edge and vertex lists re-listed in a new Graph) and the clone must continue bit-identically. "
        "distinct = fingerprint(spec, relation, K); non-trivial = the relation changed the representation (e.g. at least one quaternion negated / id changed) and the "
        "optimizer moved some vertex by > 1e-6."
        " later additions: clones of a used graph (deepcopy / pickle), two live graphs sharing objects (continuing on the old or the new listing), permuted listings under fix_first_pose=True with equal fixed sets, one edge object listed twice, fixed flags after the file round trip.")
REQ = ["eval:chi2-representation-invariant", "eval:result-representation-invariant"] + ["rel:" + r for r in RELS] + [
    "class:info_cross_terms", "class:info_blockdiag", "class:negated_vertex_quat", "class:negated_measurement_quat", "class:negated_offset_quat", "class:run_to_convergence", "class:fix_first_pose=True", "class:fix_first_pose=False", "class:objects_reused_in_second_graph", "class:rerepresented_graph_through_file", "class:whole_turns_written_in_place", "class:graph_with_4000+_edges", "class:cloned_graph:deepcopy", "class:cloned_graph:pickle", "class:cloned_graph:deepcopy_of_parts", "class:permuted_listing_with_fix_first_pose", "class:two_live_graphs_share_objects:continued_on_old", "class:same_edge_object_listed_twice"]
PLAN = {
    "quick": {"cases": 1400, "soft_s": 90, "min_nontrivial": 400, "require": REQ},
    "thorough": {"cases": 56000, "soft_s": 1500, "min_nontrivial": 12000, "require": REQ},
}
ASSUMPTIONS = ["cases where an SE(3) error quaternion has |w| < 1e-3 or an SE(2) angular error is within 1e-6 of +-pi are excluded (the error is discontinuous there); cond(H) <= 1e8; cases where the measured amplification of the K-iteration map (re-run from a 1e-11 perturbed start) exceeds 1e5 are inconclusive"]


def apply_relation(rng, spec, rel, ctx):
    s = gen.copy_spec(spec)
    c = 1.0
    changed = False
    extra_delta = 0.0
    if rel == "permute_vertices":
        perm = rng.permutation(len(s["vertices"]))
        s["vertices"] = [s["vertices"][int(j)] for j in perm]
        changed = any(int(j) != t for t, j in enumerate(perm))
    elif rel == "permute_edges":
        perm = rng.permutation(len(s["edges"]))
        s["edges"] = [s["edges"][int(j)] for j in perm]
        changed = any(int(j) != t for t, j in enumerate(perm))
    elif rel == "relabel_ids":
        used = set()
        mapping = {}
        for v in s["vertices"]:
            mapping[v["id"]], cl = gen.vertex_id(rng, used)
            ctx.count("class:relabel_id:" + cl)
        s = gen.relabel(s, mapping)
        changed = True
        return s, c, changed, extra_delta, mapping
    elif rel == "shift_2pi":
        def sh(a):
            nonlocal extra_delta, changed
            kk = int(rng.integers(-1000, 1001))
            if kk:
                changed = True
            extra_delta = max(extra_delta, 4 * R.EPS * abs(a + R.TWO_PI * kk))
            return a + R.TWO_PI * kk
        for v in s["vertices"]:
            if v["kind"] == "se2" and rng.random() < 0.7:
                v["pose"][2] = sh(v["pose"][2])
        for e in s["edges"]:
            if e.get("est_kind") == "se2" and rng.random() < 0.7:
                e["est"][2] = sh(e["est"][2])
            if e.get("off_kind") == "se2" and e.get("off") is not None and rng.random() < 0.7:
                e["off"][2] = sh(e["off"][2])
    elif rel == "negate_quaternions":
        for v in s["vertices"]:
            if v["kind"] == "se3" and rng.random() < 0.6:
                v["pose"] = v["pose"][:3] + [-x for x in v["pose"][3:]]
                changed = True
                ctx.count("class:negated_vertex_quat")
        for e in s["edges"]:
            if e.get("est_kind") == "se3" and rng.random() < 0.6:
                e["est"] = e["est"][:3] + [-x for x in e["est"][3:]]
                changed = True
                ctx.count("class:negated_measurement_quat")
            if e.get("off_kind") == "se3" and e.get("off") is not None and rng.random() < 0.6:
                e["off"] = e["off"][:3] + [-x for x in e["off"][3:]]
                changed = True
                ctx.count("class:negated_offset_quat")
    elif rel == "split_edge":
        new = []
        for e in s["edges"]:
            if rng.random() < 0.5:
                h = gen.copy_spec(e)
                h["info"] = (np.array(e["info"]) * 0.5).tolist()
                h2 = gen.copy_spec(h)
                h2["dup_of_prev"] = True
                new += [h, h2]
                changed = True
            else:
                new.append(e)
        s["edges"] = new
    elif rel == "scale_information":
        c = float(10 ** rng.uniform(-6, 6))
        for e in s["edges"]:
            e["info"] = (np.array(e["info"]) * c).tolist()
        changed = True
    return s, c, changed, extra_delta, None


def relation_check(ctx, rng, spec, rel, mode, cross, cond_max=1e8):
    """Apply one re-representation to spec and compare chi2 / K-iteration results.  Returns a tuple of observations or None."""
    ctx.count("class:info_cross_terms" if cross else "class:info_blockdiag")
    ctx.count("rel:" + rel)
    ffp_listing = bool(rel == "permute_vertices" and rng.random() < 0.5)
    if ffp_listing and not any(v.get("fixed") for v in spec["vertices"][1:]):
        ffp_listing = False
    if ffp_listing:
        # two listings of one problem under the default fix_first_pose=True: in the first one the first listed vertex is fixed only through the
        # default argument (another vertex carries a flag); in the second one it carries a flag itself and the list starts with some flagged vertex -
        # the fixed *sets* coincide, only the order (and which vertex is "first") differs
        spec = gen.copy_spec(spec)
        spec["vertices"][0]["fixed"] = False
        first_id = spec["vertices"][0]["id"]
    spec2, c, changed, extra_delta, mapping = apply_relation(rng, spec, rel, ctx)
    if ffp_listing:
        for v in spec2["vertices"]:
            if v["id"] == first_id:
                v["fixed"] = True
        fx = [j for j, v in enumerate(spec2["vertices"]) if v.get("fixed")]
        j = fx[int(rng.integers(len(fx)))]
        spec2["vertices"][0], spec2["vertices"][j] = spec2["vertices"][j], spec2["vertices"][0]
        changed = True
        ctx.count("class:permuted_listing_with_fix_first_pose")
    g, g2 = M.build(spec), M.build(spec2)
    if rel == "split_edge" and changed and rng.random() < 0.5:
        # the two halves are one edge *object* listed twice (edges = [..., half, half, ...]) instead of two equal objects
        es = list(g2._edges)
        for j, se in enumerate(spec2["edges"]):
            if se.get("dup_of_prev"):
                es[j] = es[j - 1]
        g2 = M.Graph(es, list(g2._vertices))
        ctx.count("class:same_edge_object_listed_twice")
    if rel == "shift_2pi" and rng.random() < 0.5:
        # the whole turns are written into the stored arrays of otherwise identical objects (no constructor in between)
        g2 = M.build(spec)
        for v, sv in zip(g2._vertices, spec2["vertices"]):
            if sv["kind"] == "se2":
                v.pose[2] = sv["pose"][2]
        for e, se in zip(g2._edges, spec2["edges"]):
            if se.get("est_kind") == "se2":
                e.estimate[2] = se["est"][2]
            if se.get("off_kind") == "se2" and se.get("off") is not None:
                e.offset[2] = se["off"][2]
        ctx.count("class:whole_turns_written_in_place")
    case = {"graph": {k: v for k, v in spec.items() if k not in ("truth", "truth_by_id")}, "relation": rel, "graph2": {k: v for k, v in spec2.items() if k not in ("truth", "truth_by_id")},
            "mode": mode}
    scene = max(R.tmag(v["kind"], v["pose"]) for v in spec["vertices"])
    # an angle perturbed by extra_delta moves every quantity expressed in that frame by (lever arm) x extra_delta; lever arms are bounded by 2 x scene
    delta = 64 * R.EPS * (scene + 1.0) + extra_delta * (1.0 + 2.0 * scene)
    bound = 0.0
    for e in g._edges:
        er = M.edge_ref_error(e)
        for r in M.angle_rows(e):
            if abs(abs(er[r]) - math.pi) < 1e-6:
                raise Skip("SE(2) angular error within 1e-6 of +-pi")
        if M.rot_rows(e):
            full = R.odo_err_full("se3", M.fl(e.vertices[0].pose), M.fl(e.vertices[1].pose), M.fl(e.estimate))
            if abs(R.val(full[6])) < 1e-3:
                raise Skip("SE(3) error quaternion with |w| < 1e-3")
        Om = np.abs(np.asarray(e.information))
        nO = float(Om.sum())
        bound += 2 * float(np.abs(er).max()) * nO * delta + nO * delta * delta
    with np.errstate(all="ignore"):
        c0, c1 = float(g.calc_chi2()), float(g2.calc_chi2())
    feats = {"relation": rel, "info_cross_terms": cross, "kinds": "+".join(sorted({v["kind"] for v in spec["vertices"]}))}
    ctx.close("chi2-representation-invariant", c1, c * c0, max(c, 1.0) * bound + 64 * R.EPS * abs(c * c0) * (1 + len(spec["edges"])), feats, {"c": c}, case)
    H, b, chi, idx, nn = M.assemble(g, "real")
    free = M.free_mask(g, nn, idx)
    dx, cond = M.reduced_step(H, b, free)
    if dx is None or cond > cond_max:
        raise Skip("cond(H) > %.0e" % cond_max)
    kw = {"max_iter": mode, "tol": 0.0} if mode else {"max_iter": 50, "tol": 1e-10}
    # default behaviour (fix_first_pose=True: the first *listed* vertex is the gauge) wherever the relation keeps the list order
    ffp = bool(ffp_listing or (rel != "permute_vertices" and rng.random() < 0.5))
    ctx.count("class:fix_first_pose=%s" % ffp)
    feats = dict(feats, fix_first_pose=ffp)
    if not mode:
        ctx.count("class:run_to_convergence")
    try:
        r1 = M.quiet_optimize(g, fix_first_pose=ffp, **kw)
        r2 = M.quiet_optimize(g2, fix_first_pose=ffp, **kw)
    except Exception as ex:
        ctx.check("result-representation-invariant", False, dict(feats, exception=type(ex).__name__), {"message": str(ex)[:300]}, case)
        return None
    # measured on both executions; the smaller one counts (see C07)
    amp = min(M.iteration_amplification(spec, g, dict(kw, fix_first_pose=ffp)), M.iteration_amplification(spec2, g2, dict(kw, fix_first_pose=ffp)))
    if not (amp < 1e5):
        raise Skip("the K-iteration map amplifies a 1e-11 perturbation by more than 1e5 here (expanding / chaotic regime)")
    ctx.margin("observed-iteration-amplification/1e5", amp / 1e5)
    K = mode if mode else max(r1.num_iterations or 1, r2.num_iterations or 1)
    if not mode and (not r1.converged or not r2.converged):
        raise Skip("run to convergence did not converge within 50 iterations")
    tol = 200 * R.EPS * cond * (1.0 + scene) * max(4.0 ** min(K, 6), 10.0 * amp)
    # shift_2pi: a + 2 pi k is itself rounded (|error| <= extra_delta, up to 6e-12 for k = 1000): the two graphs differ by that input perturbation,
    # carried to the result by the lever arms and the iteration map
    tol += 16 * extra_delta * (1.0 + 2.0 * scene) * max(1.0, amp) * max(1.0, cond) ** 0.5
    if not mode:
        # two converged runs may stop one iteration apart: they agree to the convergence accuracy, not to rounding
        tol = max(tol, 1e-4)
    byid2 = {v.id: v for v in g2._vertices}
    worst = 0.0
    moved = 0.0
    for v, v0 in zip(g._vertices, spec["vertices"]):
        vid = mapping[v.id] if mapping else v.id
        w = byid2[vid]
        kk = M.kind(v.pose)
        p, q = M.fl(v.pose), M.fl(w.pose)
        if not all(math.isfinite(x) for x in p + q):
            worst = math.inf
            continue
        dt, dr = M.pose_distance(kk, p, q)
        worst = max(worst, dt, dr)
        d0 = M.pose_distance(kk, p, M.fl(M.mkpose(kk, v0["pose"])))
        moved = max(moved, d0[0], d0[1])
    ctx.margin("result-representation-invariant", worst / tol)
    ctx.check("result-representation-invariant", worst <= tol, dict(feats, to_convergence=not mode), {"worst": worst, "tol": tol, "cond": cond, "K": K, "c": c}, case)
    if mode:
        # chi2 reports must agree as well (scaled)
        ctx.close("final-chi2-representation-invariant", r2.final_chi2, c * r1.final_chi2, max(c, 1) * (1e-7 * max(1.0, amp / 64) * abs(r1.final_chi2) + bound * 1e3 + 1e-20), feats, None, case)
    if rel in ("permute_vertices", "permute_edges") and mode and amp < 30 and tol < 1e-6 and worst <= tol:
        # history / object reuse: after K iterations, re-list the *same* vertex and edge objects in another order in a second Graph and continue there;
        # continuing on the original graph must give the same result (nothing remembered on the objects may depend on the old listing)
        try:
            ga, gb = M.build(spec), M.build(spec)
            M.quiet_optimize(ga, fix_first_pose=False, max_iter=mode, tol=0.0)
            M.quiet_optimize(gb, fix_first_pose=False, max_iter=mode, tol=0.0)
            pv, pe = rng.permutation(len(gb._vertices)), rng.permutation(len(gb._edges))
            g_re = M.Graph([gb._edges[int(j)] for j in pe], [gb._vertices[int(j)] for j in pv])
            M.quiet_optimize(ga, fix_first_pose=False, max_iter=2, tol=0.0)
            # two live graphs over the same vertex and edge objects: the run continues either on the new listing or on the *old* one (whose
            # construction-time bookkeeping the new graph's construction may have overwritten on the shared objects)
            on_old = bool(rng.random() < 0.5)
            M.quiet_optimize(gb if on_old else g_re, fix_first_pose=False, max_iter=2, tol=0.0)
            ctx.count("class:two_live_graphs_share_objects:continued_on_" + ("old" if on_old else "new"))
            by = {v.id: v for v in g_re._vertices}
            wr = 0.0
            for v in ga._vertices:
                p, q = M.fl(v.pose), M.fl(by[v.id].pose)
                if not all(math.isfinite(x) for x in p + q):
                    wr = math.inf
                    continue
                dt, dr = M.pose_distance(M.kind(v.pose), p, q)
                wr = max(wr, dt, dr)
            tol_re = tol * 16 * (amp + 1.0) ** 2  # two more iterations of a map whose measured amplification over `mode` iterations is amp
            ctx.check("result-representation-invariant", wr <= tol_re, dict(feats, variant="same objects re-listed in a second Graph"), {"worst": wr, "tol": tol_re}, case)
            ctx.count("class:objects_reused_in_second_graph")
        except Exception as ex:
            ctx.check("result-representation-invariant", False, dict(feats, variant="same objects re-listed in a second Graph", exception=type(ex).__name__), {"message": str(ex)[:300]}, case)
    if mode and rng.random() < 0.3:
        # object-level copies of a *used* graph (copy.deepcopy / pickle round trip, as client code does to checkpoint or to ship a graph to a worker):
        # the clone is the same problem in the same representation, so continuing on it gives bit-identical poses
        import copy
        import pickle

        how = str(rng.choice(["deepcopy", "pickle", "deepcopy_of_parts"]))
        try:
            ga = M.build(spec2)
            with np.errstate(all="ignore"):
                M.quiet_optimize(ga, fix_first_pose=False, max_iter=1, tol=0.0)
                if how == "deepcopy":
                    gb = copy.deepcopy(ga)
                elif how == "pickle":
                    gb = pickle.loads(pickle.dumps(ga))
                else:
                    ee, vv = copy.deepcopy((list(ga._edges), list(ga._vertices)))
                    gb = M.Graph(ee, vv)
                M.quiet_optimize(ga, fix_first_pose=False, max_iter=2, tol=0.0)
                M.quiet_optimize(gb, fix_first_pose=False, max_iter=2, tol=0.0)
            pa, pb = M.snapshot_poses(ga), M.snapshot_poses(gb)
            same = all(len(p) == len(q) and all((x == y) or (x != x and y != y) for x, y in zip(p, q)) for p, q in zip(pa, pb))
            linked = M.edges_linked_to_graph(gb)
            ctx.check("result-representation-invariant", same and linked, dict(feats, variant="clone of a used graph: " + how), {"edges_attached_to_the_clone's_vertices": linked}, case)
            ctx.count("class:cloned_graph:" + how)
        except Exception as ex:
            ctx.check("result-representation-invariant", False, dict(feats, variant="clone of a used graph: " + how, exception=type(ex).__name__), {"message": str(ex)[:300]}, case)
    if rel in ("split_edge", "relabel_ids") and changed:
        # the re-represented graph through the file entry point: the part of it that .g2o can express (SE(2)/SE(3) poses and the odometry edges among them)
        # is written, read back, and must still be the same physical graph (same chi2 as that part of the original)
        import os
        import shutil
        import tempfile

        def expressible(sp):
            # SE(2)/SE(3) poses, the landmarks they observe, odometry edges, SE(2) landmark edges (offset replaced by the identity in *both* sub-graphs:
            # the format has no 2-D offset) and SE(3) landmark edges (each offset registered as its own PARAMS_SE3OFFSET entry)
            kinds = {v["id"]: v["kind"] for v in sp["vertices"]}
            edges, params = [], []
            for e in sp["edges"]:
                ks = [kinds.get(j) for j in e["ids"]]
                if e["type"] == "odo" and e["est_kind"] in ("se2", "se3"):
                    edges.append(gen.copy_spec(e))
                elif e["type"] == "lm" and ks == ["se2", "r2"]:
                    e2 = gen.copy_spec(e)
                    e2["off"] = R.identity("se2")
                    edges.append(e2)
                elif e["type"] == "lm" and ks == ["se3", "r3"] and e.get("off") is not None:
                    e2 = gen.copy_spec(e)
                    e2["off_id"] = len(params)
                    params.append({"tag": "PARAMS_SE3OFFSET", "id": len(params), "value": list(e["off"])})
                    edges.append(e2)
            used = {j for e in edges for j in e["ids"]}
            keep = {v["id"] for v in sp["vertices"] if v["kind"] in ("se2", "se3")} | used
            return {"vertices": [v for v in sp["vertices"] if v["id"] in keep], "edges": edges, "params": params}
        sub0, sub2 = expressible(spec), expressible(spec2)
        if sub2["edges"]:
            dtmp = tempfile.mkdtemp(prefix="c08-", dir=os.environ.get("VF_SCRATCH"))
            try:
                pth = os.path.join(dtmp, "rep.g2o")
                with np.errstate(all="ignore"):
                    cs0 = float(M.build(sub0).calc_chi2())
                    M.build(sub2).to_g2o(pth)
                    try:
                        gl = M.Graph.from_g2o(pth)
                        cl = float(gl.calc_chi2())
                        nl = len(gl._edges)
                    except Exception as ex:
                        cl, nl = float("nan"), type(ex).__name__
                ctx.close("chi2-representation-invariant", cl, c * cs0, max(c, 1.0) * bound * 4 + 1e-9 * abs(cs0), dict(feats, variant="re-represented graph written to .g2o and read back"),
                          {"n_edges": [len(sub2["edges"]), nl]}, case)
                # whatever else the file carries (or does not carry) about a vertex - e.g. which vertices are held fixed - must come back the same for both
                # representations: the original sub-graph through the file as well, flags compared in list order (both relations keep the vertex order)
                try:
                    pth0 = os.path.join(dtmp, "orig.g2o")
                    with np.errstate(all="ignore"):
                        M.build(sub0).to_g2o(pth0)
                        gl0 = M.Graph.from_g2o(pth0)
                    if isinstance(nl, int):
                        f0, f2 = [bool(v.fixed) for v in gl0._vertices], [bool(v.fixed) for v in gl._vertices]
                        ctx.check("chi2-representation-invariant", f0 == f2, dict(feats, variant="fixed flags after the file round trip of both representations"),
                                  {"flags_original": f0, "flags_rerepresented": f2}, case)
                except Exception as ex:  # noqa: BLE001
                    ctx.count("file_variant_original_roundtrip_raised:" + type(ex).__name__)
                ctx.count("class:rerepresented_graph_through_file")
            finally:
                shutil.rmtree(dtmp, ignore_errors=True)
    return spec2, c, changed, c0, c1, worst, tol, moved


def run_case(ctx, i, rng):
    rel = RELS[i % 7]
    mode = (i // 7) % 5  # K = 1..4, or 0 = run to convergence
    cross = bool((i // 35) % 2)
    if rel in ("negate_quaternions",):
        kinds = [["se3"], ["se3", "r3"], ["se3", "se3"]][int(rng.integers(3))]
    elif rel == "shift_2pi":
        kinds = [["se2"], ["se2", "r2"], ["se2", "se2"]][int(rng.integers(3))]
    else:
        kinds = None
    if rng.random() < 0.6:
        spec, labels = gen.cluster_graph(rng, kinds=kinds, custom=False, cross=cross, shuffle=False, weird_ids=bool(rng.random() < 0.3), special=bool(rng.random() < 0.3))
    else:
        k = kinds[0] if kinds else str(rng.choice(R.KINDS))
        n = int(rng.integers(3, 10))
        spec = gen.trajectory_graph(rng, k, n, n_loops=int(rng.integers(0, 4)), n_lm=int(rng.integers(0, 3)), meas_t=0.03, meas_r=0.02, init_t=0.15, init_r=0.08,
                                    cond=100.0, cross=cross)
        labels = set()
    out = relation_check(ctx, rng, spec, rel, mode, cross)
    if out is None:
        return
    spec2, c, changed, c0, c1, worst, tol, moved = out
    if changed and moved > 1e-6:
        ctx.nontrivial(gen.fingerprint({"spec": spec, "rel": rel, "mode": mode}))
    ctx.sample({"relation": rel, "mode": "K=%d" % mode if mode else "to convergence", "info_cross_terms": cross, "n_vertices": len(spec["vertices"]), "n_edges": len(spec["edges"]),
                "chi2": [c0, c1], "scale_c": c, "worst_pose_difference": worst, "tolerance": tol}, cap=4)


# --------------------------------------------------------------------------- #
# pinned regression input (finding F3)
# --------------------------------------------------------------------------- #
def pinned_f3(ctx):
    """F3: SE(3) odometry edge, information with translation-rotation cross terms, negate the quaternion of a vertex / of the measurement."""
    rng = np.random.default_rng(33)
    Om = gen.spd(rng, 6, 10.0, True)
    p1 = [0.0, 0.0, 0.0, 0.0, 0.0, 0.0, 1.0]
    p2 = gen.normalize_pose("se3", [1.0, 0.2, -0.1, 0.1, -0.2, 0.15, 0.95])
    z = gen.normalize_pose("se3", [0.9, 0.25, -0.05, 0.12, -0.18, 0.1, 0.96])
    base = {"vertices": [{"id": 0, "kind": "se3", "pose": p1, "fixed": True}, {"id": 1, "kind": "se3", "pose": p2, "fixed": False}],
            "edges": [{"type": "odo", "ids": [0, 1], "info": Om.tolist(), "est": z, "est_kind": "se3"}]}
    c0 = float(M.build(base).calc_chi2())
    for what in ("vertex", "measurement"):
        s = gen.copy_spec(base)
        if what == "vertex":
            s["vertices"][1]["pose"] = p2[:3] + [-x for x in p2[3:]]
        else:
            s["edges"][0]["est"] = z[:3] + [-x for x in z[3:]]
        c1 = float(M.build(s).calc_chi2())
        ctx.close("chi2-representation-invariant", c1, c0, 1e-12 * abs(c0), {"relation": "negate_quaternions", "info_cross_terms": True, "kinds": "se3", "pinned": "F3", "negated": what},
                  None, {"graph": base, "graph2": s})
    ctx.nontrivial("pinned-F3")


PINNED = [pinned_f3]


def _dataset_case(name, nmax, cross):
    def f(ctx):
        from .. import datasets

        if not datasets.available(name):
            ctx.skip("dataset file missing: " + name)
            return
        rng = np.random.default_rng([8, nmax, int(cross)])
        spec = datasets.augment_with_landmarks(rng, datasets.load_spec(name, nmax), 8, cross_information=cross)
        for rel in RELS:
            if rel == "shift_2pi" and name != "intel":
                continue
            if rel == "negate_quaternions" and name != "garage":
                continue
            try:
                relation_check(ctx, rng, spec, rel, int(rng.integers(1, 3)), cross, cond_max=1e13)
            except Skip as sk:
                ctx.skip("dataset %s: %s" % (name, sk.reason))
        ctx.count("dataset:" + name)
        ctx.nontrivial("dataset-%s-%d-%s" % (name, nmax, cross))
    return f


DATASET_CASES = [_dataset_case("intel", 120, False), _dataset_case("intel", 60, True), _dataset_case("garage", 40, False), _dataset_case("garage", 60, True)]


def pinned_big_split(ctx):
    """A large linear graph (thousands of edges): splitting edges into halves placed far apart in the edge list, and permuting the edge list, must not change the
    optimum (count-dependent accumulation paths)."""
    rng = np.random.default_rng(808)
    nv, ne = 1500, 4400
    vertices = [{"id": j, "kind": "r2", "pose": [float(x) for x in rng.normal(size=2) * 30], "fixed": j == 0} for j in range(nv)]
    edges = [{"type": "odo", "ids": [j, j + 1], "info": gen.spd(rng, 2, 5.0).tolist(), "est": [float(x) for x in rng.normal(size=2)], "est_kind": "r2"} for j in range(nv - 1)]
    while len(edges) < ne:
        a, b = rng.choice(nv, 2, replace=False)
        edges.append({"type": "odo", "ids": [int(a), int(b)], "info": gen.spd(rng, 2, 5.0).tolist(), "est": [float(x) for x in rng.normal(size=2) * 3], "est_kind": "r2"})
    spec = {"vertices": vertices, "edges": edges}
    split = gen.copy_spec(spec)
    extra = []
    for j in rng.choice(len(edges), 300, replace=False):
        e = split["edges"][int(j)]
        e["info"] = (np.array(e["info"]) * 0.5).tolist()
        h = gen.copy_spec(e)
        if rng.random() < 0.5:
            h["ids"] = h["ids"][::-1]
            h["est"] = [-x for x in h["est"]]
        extra.append(h)
    split["edges"] = split["edges"] + extra  # the second halves sit thousands of positions later
    perm = gen.copy_spec(spec)
    perm["edges"] = [perm["edges"][int(j)] for j in rng.permutation(len(edges))]
    res = []
    for sp in (spec, split, perm):
        g = M.build(sp)
        r = M.quiet_optimize(g, max_iter=2, tol=0.0)
        res.append((M.snapshot_poses(g), r.final_chi2))
    for name, (poses, chi) in zip(("split_edge", "permute_edges"), res[1:]):
        worst = max(abs(x - y) for p, q in zip(res[0][0], poses) for x, y in zip(p, q))
        ctx.check("result-representation-invariant", worst <= 1e-7, {"relation": name, "where": "large linear graph"}, {"worst": worst, "n_edges": ne}, {"n_edges": ne})
        ctx.close("final-chi2-representation-invariant", chi, res[0][1], 1e-8 * abs(res[0][1]), {"relation": name, "where": "large linear graph"}, None, {"n_edges": ne})
    ctx.count("class:graph_with_4000+_edges")
    ctx.nontrivial("pinned-big-split")


PINNED = PINNED + [pinned_big_split]
