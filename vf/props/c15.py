"""C15 - queries are pure; optimize changes only vertex poses.

Events: a full bitwise snapshot of the numeric state of a graph (vertex poses, fixed flags, ids; edge estimates, information,
offsets, vertex ids; registered parameters) before and after each call of a random history of up to 50 API calls
interleaved with optimizer runs; the return value of each query and of its immediate repetition.
Oracle: after a query the snapshot is identical and the repeated call returns identical values; operands of pose operators
are unchanged; copies are independent; after optimize only vertex poses (and the first vertex's fixed flag if asked) differ.
"""
import math
import os
import shutil
import tempfile

import numpy as np

from .. import gen, model as M, refmodel as R

QUERIES = ["edge.calc_error", "edge.calc_chi2", "edge.calc_jacobians", "BaseEdge.calc_jacobians(numerical)", "edge.calc_chi2_gradient_hessian", "graph.calc_chi2",
           "graph._calc_chi2_gradient_hessian", "pose.equals", "vertex.equals", "edge.equals", "graph.equals", "graph.to_g2o", "vertex.to_g2o", "edge.to_g2o", "pose.operators",
           "pose.jacobians", "pose.accessors", "pose.copy-independence", "edge.is_valid", "plot"]
RULE = ("cases from rng(seed, 15, 0, i): a cluster graph (all pose types, parallel edges, landmarks with offsets, custom edges with numerical Jacobians; every 5th graph has no fixed vertex and is anchored by pose priors) and a history of "
        "20..50 calls drawn from " + ", ".join(QUERIES) + " plus optimize(max_iter 1..3); snapshot compared around each call. distinct = fingerprint(spec, history); "
        "non-trivial = history with >= 1 numerical-Jacobian call on an SE(2)/SE(3) vertex and >= 1 optimize run."
        " later additions: plot queries, operations on another live graph (edited in place / snapshot graph sharing the edges optimized), SE(3) landmark edges without offset id, process-wide settings around optimize.")
REQ = ["eval:query-leaves-state-unchanged", "eval:repeat-returns-identical", "eval:optimize-changes-only-poses", "eval:operands-unchanged", "eval:copy-independent"] + ["query:" + q for q in QUERIES] + [
    "class:numerical_jacobian_on_SE_vertex", "class:parallel_edges", "class:no_fixed_vertex_prior_anchored", "class:graph_loaded_from_g2o", "class:shared_pose_storage", "class:estimate_object_reused_as_initial_pose", "class:numerical_jacobian_at_stored_plus_pi", "class:snapshot_graph_shares_the_edge_objects", "class:other_graph_edited_in_place_by_its_owner", "class:snapshot_graph_(shares_the_edge_objects)_optimized"]
PLAN = {
    "quick": {"cases": 480, "soft_s": 80, "min_nontrivial": 150, "require": REQ},
    "thorough": {"cases": 24000, "soft_s": 1400, "min_nontrivial": 6000, "require": REQ},
}
ASSUMPTIONS = ["floats compared with == (so -0.0 and 0.0 are identified) plus NaN == NaN; everything else bitwise"]


def snap(g):
    s = {"v": [], "e": [], "p": []}
    for v in g._vertices:
        s["v"].append((v.id, bool(v.fixed), type(v.pose).__name__, tuple(M.fl(v.pose))))
    for e in g._edges:
        est = e.estimate
        s["e"].append((type(e).__name__, tuple(e.vertex_ids), type(est).__name__, tuple(M.fl(est)), tuple(M.fl(e.information)), np.asarray(e.information).shape,
                       tuple(M.fl(e.offset)) if getattr(e, "offset", None) is not None else None, getattr(e, "offset_id", None),
                       tuple(id(v) for v in e.vertices)))
    for k, p in (g._g2o_params or {}).items():
        s["p"].append((k, tuple(M.fl(p.value))))
    return s


def nums_equal(a, b, se2=False):
    if len(a) != len(b):
        return False
    for j, (x, y) in enumerate(zip(a, b)):
        if x == y or (x != x and y != y):
            continue
        return False
    return True


def diff_snap(a, b, ignore_poses=False, allow_first_fixed=False):
    """List of differences between two snapshots."""
    out = []
    if len(a["v"]) != len(b["v"]) or len(a["e"]) != len(b["e"]):
        return ["element counts changed"]
    for j, (x, y) in enumerate(zip(a["v"], b["v"])):
        if x[0] != y[0] or x[2] != y[2]:
            out.append("vertex %d id/type changed" % j)
        if x[1] != y[1] and not (allow_first_fixed and j == 0 and y[1]):
            out.append("vertex %d fixed flag %s -> %s" % (j, x[1], y[1]))
        if not ignore_poses and not nums_equal(x[3], y[3], se2=(x[2] == "PoseSE2")):
            out.append("vertex %d pose %r -> %r" % (j, x[3], y[3]))
    for j, (x, y) in enumerate(zip(a["e"], b["e"])):
        if x[0] != y[0] or x[1] != y[1] or x[2] != y[2] or x[5] != y[5] or x[7] != y[7] or x[8] != y[8]:
            out.append("edge %d structure changed" % j)
        if not nums_equal(x[3], y[3], se2=(x[2] == "PoseSE2")):
            out.append("edge %d estimate %r -> %r" % (j, x[3], y[3]))
        if not nums_equal(x[4], y[4]):
            out.append("edge %d information changed" % j)
        if (x[6] is None) != (y[6] is None) or (x[6] is not None and not nums_equal(x[6], y[6], se2=len(x[6]) == 3)):
            out.append("edge %d offset changed" % j)
    if len(a["p"]) != len(b["p"]) or any(x[0] != y[0] or not nums_equal(x[1], y[1]) for x, y in zip(a["p"], b["p"])):
        out.append("parameters changed")
    return out


def canon(r):
    if isinstance(r, np.ndarray):
        return ("arr", r.shape, tuple(float(x) for x in np.asarray(r, dtype=float).ravel()))
    if isinstance(r, (list, tuple)):
        return tuple(canon(x) for x in r)
    if isinstance(r, (float, np.floating)):
        return float(r)
    if isinstance(r, (int, bool, str)) or r is None:
        return r
    if isinstance(r, (np.integer, np.bool_)):
        return r.item()
    return repr(r)


def canon_equal(a, b):
    if isinstance(a, tuple) and isinstance(b, tuple):
        return len(a) == len(b) and all(canon_equal(x, y) for x, y in zip(a, b))
    if isinstance(a, float) and isinstance(b, float):
        return a == b or (a != a and b != b)
    return a == b


def do_query(q, g, g_other, rng, scratch):
    """Returns a thunk that performs the query and returns a comparable value, plus operand poses (if any)."""
    e = g._edges[int(rng.integers(len(g._edges)))]
    v = g._vertices[int(rng.integers(len(g._vertices)))]
    w = g._vertices[int(rng.integers(len(g._vertices)))]
    info = {}
    if q == "edge.calc_error":
        return (lambda: e.calc_error()), info
    if q == "edge.calc_chi2":
        return (lambda: e.calc_chi2()), info
    if q == "edge.calc_jacobians":
        return (lambda: e.calc_jacobians()), info
    if q == "BaseEdge.calc_jacobians(numerical)":
        info["se_vertex"] = any(isinstance(x.pose, (M.PoseSE2, M.PoseSE3)) for x in e.vertices)
        return (lambda: M.BaseEdge.calc_jacobians(e)), info
    if q == "edge.calc_chi2_gradient_hessian":
        return (lambda: e.calc_chi2_gradient_hessian()), info
    if q == "graph.calc_chi2":
        return (lambda: g.calc_chi2()), info
    if q == "graph._calc_chi2_gradient_hessian":
        def f():
            g._calc_chi2_gradient_hessian()
            return (g._chi2, np.array(g._gradient), np.asarray(g._hessian.todense()))
        return f, info
    if q == "pose.equals":
        return (lambda: bool(v.pose.equals(v.pose.copy(), 1e-6))), info
    if q == "vertex.equals":
        return (lambda: (bool(v.equals(v)), bool(v.equals(w)))), info
    if q == "edge.equals":
        e2 = g._edges[int(rng.integers(len(g._edges)))]
        ok_pair = type(e) is type(e2)
        return (lambda: (bool(e.equals(e)), bool(e.equals(e2)) if ok_pair else None)), info
    if q == "graph.equals":
        return (lambda: (bool(g.equals(g)), bool(g.equals(g_other)))), info
    if q == "graph.to_g2o":
        def f():
            p = os.path.join(scratch, "q.g2o")
            try:
                g.to_g2o(p)
            except NotImplementedError:
                return "NotImplementedError"
            with open(p) as fh:
                return fh.read()
        return f, info
    if q == "vertex.to_g2o":
        return (lambda: v.to_g2o()), info
    if q == "edge.to_g2o":
        def f():
            try:
                return e.to_g2o()
            except NotImplementedError:
                return "NotImplementedError"
        return f, info
    if q == "edge.is_valid":
        return (lambda: bool(e.is_valid())), info
    if q == "plot":
        # drawing (matplotlib, off-screen backend) is a read-only operation as well: graph, one vertex, one edge
        what = int(rng.integers(3))

        def f():
            import matplotlib.pyplot as plt

            try:
                if what == 0:
                    g.plot(title="t")
                elif what == 1:
                    v.plot()
                else:
                    e.plot()
            except Exception as ex:  # noqa: BLE001 - mixed 2-D / 3-D content may be undrawable; the state must be untouched all the same
                return ("plot raised", type(ex).__name__)
            finally:
                plt.close("all")
            return None
        return f, info
    same = [x for x in g._vertices if type(x.pose) is type(v.pose)]
    u = same[int(rng.integers(len(same)))]
    info["operands"] = [v.pose, u.pose]
    k = M.kind(v.pose)
    if q == "pose.operators":
        d = np.array([0.01 * (j + 1) for j in range(R.CD[k])])
        if k == "se3" and rng.random() < 0.4:
            d[3:] = [0.9, -0.8, 0.7]  # rotational part of norm > 1: clamped to the identity rotation by the library (a legitimate call)
        pt = np.array([0.5, -0.25, 0.125][: {"r2": 2, "r3": 3, "se2": 2, "se3": 3}[k]])
        info["arrays"] = [(d, d.copy()), (pt, pt.copy())]

        def f():
            out = [v.pose + u.pose, v.pose - u.pose, v.pose.inverse, v.pose + d, v.pose + pt if k in ("se2", "se3") else v.pose + M.mkpose(k, list(pt)), v.pose.copy()]
            if hasattr(v.pose, "to_matrix"):
                out.append(v.pose.to_matrix())
            return [np.asarray(x) for x in out]
        return f, info
    if q == "pose.jacobians":
        pt = M.mkpose(R.POINT_OF[k], [0.5, -0.25, 0.125][: R.CD[R.POINT_OF[k]]])

        def f():
            p = v.pose
            return [p.jacobian_self_oplus_other_wrt_self(u.pose), p.jacobian_self_oplus_other_wrt_other_compact(u.pose), p.jacobian_self_ominus_other_wrt_self_compact(u.pose),
                    p.jacobian_self_ominus_other_wrt_other(u.pose), p.jacobian_boxplus(), p.jacobian_self_oplus_point_wrt_self(pt), p.jacobian_self_oplus_point_wrt_point(pt), p.jacobian_inverse()]
        return f, info
    if q == "pose.accessors":
        return (lambda: [v.pose.to_array(), v.pose.to_compact(), np.asarray(v.pose.position), np.asarray(v.pose.orientation)]), info
    if q == "pose.copy-independence":
        def f():
            c = v.pose.copy()
            c[0] = c[0] + 1.0
            c[-1] = 0.123
            pos = v.pose.position
            pos[0] = -77.0
            arr = v.pose.to_array()
            arr[:] = 9.0
            cm = v.pose.to_compact()
            cm[:] = 7.0
            return True
        return f, info
    raise KeyError(q)


def run_case(ctx, i, rng):
    nofix = bool(i % 5 == 0)
    spec, labels = gen.cluster_graph(rng, size=(2, 5), numeric_custom=True if i % 2 else None, fix_mode=("none_prior" if nofix else None), alias=bool(rng.random() < 0.35))
    if "shared_pose_storage" in labels:
        ctx.count("class:shared_pose_storage")
    if nofix:
        ctx.count("class:no_fixed_vertex_prior_anchored")
    if rng.random() < 0.3:
        # landmark edges built in code without an offset id (the constructor's default): whatever an export does about that, it is not the edges' business
        for e in spec["edges"]:
            if e.get("type") == "lm" and e.get("off_kind") == "se3":
                e["off_id"] = None
                ctx.count("class:se3_landmark_edges_without_offset_id")
    g = M.build(spec)
    g_other = M.build(spec)
    if i % 4 == 1:
        # the same kind of history on a graph as the loader produces it (landmark offsets are the parameter objects themselves)
        from . import c13

        lspec, fam, ext = c13.make_spec(rng, ctx)
        if not ext:
            d0 = tempfile.mkdtemp(prefix="c15-", dir=os.environ.get("VF_SCRATCH"))
            try:
                pth = os.path.join(d0, "g.g2o")
                if rng.random() < 0.5:
                    M.build(lspec).to_g2o(pth)
                    g, g_other = M.Graph.from_g2o(pth), M.Graph.from_g2o(pth)
                else:
                    # the same structure built in memory (parameters registered, offsets shared with them), never exported before the history starts
                    g, g_other = M.build(lspec), M.build(lspec)
                spec = lspec
                labels = set()
                ctx.count("class:graph_loaded_from_g2o")
            finally:
                shutil.rmtree(d0, ignore_errors=True)
    if "parallel_edges" in labels:
        ctx.count("class:parallel_edges")
    if i % 4 != 1 and rng.random() < 0.3:
        # one more way client code shares objects: a measurement object that is also a vertex's initial pose object
        for e in g._edges:
            if isinstance(e, M.EdgeOdometry) and type(e.estimate) is type(e.vertices[1].pose) and not e.vertices[1].fixed:
                e.vertices[1].pose = e.estimate
                ctx.count("class:estimate_object_reused_as_initial_pose")
                break
    g_snap = None
    if rng.random() < 0.25:
        # the "keep the initial guess around" pattern: a snapshot graph over *copies* of the vertices that lists the same edge objects, built first;
        # the working graph is (re)built last and therefore owns the edge bindings
        try:
            g_snap = M.Graph(list(g._edges), [M.Vertex(v.id, v.pose.copy(), bool(v.fixed)) for v in g._vertices])
            g = M.Graph(list(g._edges), list(g._vertices))
            ctx.count("class:snapshot_graph_shares_the_edge_objects")
        except Exception:
            g_snap = None
    L = int(rng.integers(20, 51))
    scratch = tempfile.mkdtemp(prefix="c15-", dir=os.environ.get("VF_SCRATCH"))
    hist = []
    num_se = False
    n_opt = 0
    case = {"graph": {k: v for k, v in spec.items() if k != "truth_by_id"}}
    try:
        for step in range(L):
            if rng.random() < 0.12:
                ffp = bool(rng.random() < 0.5)
                kw = {"max_iter": int(rng.integers(1, 4)), "tol": float(rng.choice([0.0, 1e-4])), "fix_first_pose": ffp}
                before = snap(g)
                del M.PROCESS_LEAKS[:]
                try:
                    M.quiet_optimize(g, **kw)
                except Exception as ex:
                    ctx.count("optimize_exception:" + type(ex).__name__)
                after = snap(g)
                d = diff_snap(before, after, ignore_poses=True, allow_first_fixed=ffp)
                if M.PROCESS_LEAKS:
                    # ... and nothing outside the graph either: numpy error mode / print options, warning filters, logger levels
                    d.append("process-wide setting changed: %s" % (M.PROCESS_LEAKS[0],))
                    del M.PROCESS_LEAKS[:]
                # fixed vertices' poses unchanged as well (shared with C06)
                for j, (x, y) in enumerate(zip(before["v"], after["v"])):
                    if (x[1] or (ffp and j == 0)) and not nums_equal(x[3], y[3], se2=(x[2] == "PoseSE2")):
                        d.append("fixed vertex %d moved" % j)
                ctx.check("optimize-changes-only-poses", not d, {"fix_first_pose": ffp}, {"differences": d[:5], "history": hist[-6:], "kwargs": kw}, case)
                hist.append("optimize(%s)" % kw)
                n_opt += 1
                continue
            u_other = rng.random()
            if u_other < 0.08:
                # something happens to *another* live graph: its owner edits it in place, or it is optimized; this graph's state and answers stay as they are
                before = snap(g)
                with np.errstate(all="ignore"):
                    try:
                        c_before = canon(g.calc_chi2())
                    except Exception:
                        c_before = None
                    what = "other graph edited in place by its owner"
                    try:
                        if g_snap is not None and u_other < 0.04:
                            what = "snapshot graph (shares the edge objects) optimized"
                            M.quiet_optimize(g_snap, max_iter=int(rng.integers(1, 3)), tol=0.0)
                        else:
                            for eo in g_other._edges:
                                eo.information *= 0.25
                                if isinstance(eo.estimate, np.ndarray) and eo.estimate.ndim == 1:
                                    eo.estimate[0] = float(eo.estimate[0]) + 0.5
                                if isinstance(getattr(eo, "offset", None), np.ndarray):
                                    eo.offset[0] = float(eo.offset[0]) + 0.5
                            for vo in g_other._vertices:
                                vo.pose[0] = float(vo.pose[0]) + 0.5
                    except Exception as ex:
                        ctx.count("other_graph_operation_raised:" + type(ex).__name__)
                    try:
                        c_after = canon(g.calc_chi2())
                    except Exception:
                        c_after = None
                d = diff_snap(before, snap(g))
                same_answer = (c_before is None and c_after is None) or (c_before is not None and c_after is not None and canon_equal(c_before, c_after))
                ctx.check("query-leaves-state-unchanged", not d and same_answer, {"query": what}, {"differences": d[:5], "chi2": [str(c_before)[:40], str(c_after)[:40]], "history": hist[-6:]}, case)
                ctx.count("class:" + what.replace(" ", "_"))
                hist.append(what)
                if d:
                    break
                continue
            q = QUERIES[int(rng.integers(len(QUERIES)))]
            ctx.count("query:" + q)
            hist.append(q)
            thunk, info = do_query(q, g, g_other, rng, scratch)
            ops_before = [tuple(M.fl(p)) for p in info.get("operands", [])]
            op_objs = info.get("operands", [])
            before = snap(g)
            with np.errstate(all="ignore"):
                try:
                    r1 = canon(thunk())
                    mid = snap(g)
                    r2 = canon(thunk())
                except Exception as ex:
                    if not all(math.isfinite(x) for vv in g._vertices for x in M.fl(vv.pose)):
                        # a diverged / singular optimize run left NaN poses: queries (the harness' own AD-backed custom edges among them) may refuse such a state
                        ctx.count("history_ended:query_raised_on_a_nonfinite_state:" + type(ex).__name__)
                        break
                    ctx.check("query-leaves-state-unchanged", False, {"query": q, "exception": type(ex).__name__}, {"message": str(ex)[:300], "history": hist[-6:]}, case)
                    break
            after = snap(g)
            d = diff_snap(before, mid) or diff_snap(before, after)
            ctx.check("query-leaves-state-unchanged", not d, {"query": q}, {"differences": d[:5], "history": hist[-6:]}, case)
            ctx.check("repeat-returns-identical", canon_equal(r1, r2), {"query": q}, {"first": str(r1)[:300], "second": str(r2)[:300], "history": hist[-6:]}, case)
            if op_objs:
                same = all(nums_equal(b4, tuple(M.fl(p)), se2=isinstance(p, M.PoseSE2)) for b4, p in zip(ops_before, op_objs))
                same = same and all(np.array_equal(arr, keep) for arr, keep in info.get("arrays", []))
                ctx.check("operands-unchanged", same, {"query": q}, {"history": hist[-6:], "array_operands": [(a.tolist(), b.tolist()) for a, b in info.get("arrays", [])]}, case)
            if q == "pose.copy-independence":
                ctx.check("copy-independent", not d, {"query": q}, {"differences": d[:5]}, case)
            if q == "BaseEdge.calc_jacobians(numerical)" and info.get("se_vertex"):
                num_se = True
                ctx.count("class:numerical_jacobian_on_SE_vertex")
            if d:
                break
    finally:
        shutil.rmtree(scratch, ignore_errors=True)
    if num_se and n_opt:
        ctx.nontrivial(gen.fingerprint({"spec": spec, "hist": hist}))
    ctx.sample({"history": hist[:12], "length": len(hist), "n_vertices": len(spec["vertices"]), "n_edges": len(spec["edges"])}, cap=2)


def pinned_f7(ctx):
    """F7: numerical Jacobian of a custom edge at an SE(2) vertex whose stored angle is +pi (the constructor maps nextafter(-pi, -inf) to +pi)."""
    from .. import custom

    v1 = M.Vertex(1, M.PoseSE2([0.0, -2.18], math.nextafter(-math.pi, -10.0)))
    v2 = M.Vertex(2, M.PoseSE2([33667.2, -5.19], 0.3))
    e = custom.RelPoseEdge([1, 2], np.eye(3), M.PoseSE2([1.0, 2.0], -1.05), [v1, v2])
    g = M.Graph([e], [v1, v2])
    stored = float(v1.pose[2])
    feats = {"query": "BaseEdge.calc_jacobians(numerical)", "stored_angle_plus_pi": stored == math.pi}
    case = {"generator": "pinned_f7"}
    before = snap(g)
    with np.errstate(all="ignore"):
        r1 = canon(M.BaseEdge.calc_jacobians(e))
        mid = snap(g)
        r2 = canon(M.BaseEdge.calc_jacobians(e))
    d = diff_snap(before, mid) or diff_snap(before, snap(g))
    ctx.check("query-leaves-state-unchanged", not d, feats, {"differences": d[:5], "stored_angle": stored}, case)
    ctx.check("repeat-returns-identical", canon_equal(r1, r2), feats, {"first": str(r1)[:300], "second": str(r2)[:300]}, case)
    ctx.count("class:numerical_jacobian_at_stored_plus_pi" if stored == math.pi else "class:plus_pi_not_stored")


PINNED = [pinned_f7]


def extra_stage(tier, seed, tmp):
    """thorough tier: the repository's own test-suite as a workload under this property's monitors (every Graph.optimize / Graph.from_g2o call)."""
    if tier != "thorough":
        return None
    from ..runner import suite_under_monitors

    return suite_under_monitors("C15", seed, tmp)
