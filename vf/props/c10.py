"""C10 - public pose Jacobian methods are exact derivatives (custom-edge building blocks).

Monitor: post-conditions on the 12 jacobian_* methods of the four pose classes.
Oracle: documented shape; *_compact = compact rows of the full variant (exact); chained with jacobian_boxplus the product
equals the forward-mode AD derivative of the reference operation along every tangent direction of the operand; for R^n and
SE(2) (no constraint) additionally the plain ambient derivative; jacobian_boxplus itself against AD of the reference boxplus.
"""
import math

import numpy as np

from .. import gen, model as M, refmodel as R

METHODS = ["jacobian_self_oplus_other_wrt_self", "jacobian_self_oplus_other_wrt_self_compact", "jacobian_self_oplus_other_wrt_other", "jacobian_self_oplus_other_wrt_other_compact",
           "jacobian_self_ominus_other_wrt_self", "jacobian_self_ominus_other_wrt_self_compact", "jacobian_self_ominus_other_wrt_other", "jacobian_self_ominus_other_wrt_other_compact",
           "jacobian_boxplus", "jacobian_self_oplus_point_wrt_self", "jacobian_self_oplus_point_wrt_point", "jacobian_inverse"]
RULE = ("cases from rng(seed, 10, 0, i): pose kind = i mod 4, hostile operands (as C09); all 12 Jacobian methods are evaluated per case: shape, compact-row relation, "
        "manifold derivative vs AD (6/3/2 tangent directions), ambient derivative for R^n/SE(2); every 3rd case repeats everything after the returned matrices were scribbled on and the pose objects modified in place. distinct = fingerprint of operands; non-trivial = both operands have "
        "non-zero translation and (SE types) non-identity rotation."
        " later additions: partly coinciding operands, operands far from the origin but close together, operands used (matrix form, inverse, compositions) before their Jacobians are requested.")
REQ = ["eval:shape", "eval:compact-rows", "eval:manifold-derivative", "eval:ambient-derivative", "eval:boxplus-jacobian", "class:kind:se3", "class:kind:se2", "class:q:wneg", "class:q:wzero",
       "class:a:nearpi_in", "class:after_inplace_modification", "class:far_from_origin_close_together"] + ["method:" + m for m in METHODS]
PLAN = {
    "quick": {"cases": 4000, "soft_s": 70, "min_nontrivial": 1000, "require": REQ},
    "thorough": {"cases": 200000, "soft_s": 1300, "min_nontrivial": 50000, "require": REQ},
}
ASSUMPTIONS = ["SE(3) operands are unit quaternions; for SE(3) only the derivative along the manifold is defined (ambient extension off the unit sphere is not unique)"]


def quat_sign(k, real_res, ref_res):
    """Sign relation between the real and the reference result quaternion (same rotation either way)."""
    if k != "se3" or len(real_res) != 7:
        return 1.0
    a, b = np.array(real_res[3:]), np.array(R.vals(ref_res)[3:])
    return -1.0 if np.abs(a + b).max() < np.abs(a - b).max() else 1.0


def run_case(ctx, i, rng):
    k = R.KINDS[i % 4]
    kp = R.POINT_OF[k]
    maxexp = 4.0 if ctx.tier == "quick" else 6.0
    labels = set()
    pa, la = gen.pose(rng, k, maxexp)
    pb, lb = gen.pose(rng, k, maxexp)
    pt, _ = gen.pose(rng, kp, maxexp)
    if rng.random() < 0.12:
        # far from the origin but close together (map coordinates such as UTM metres, separations from millimetres to metres)
        nt0 = {"r2": 2, "r3": 3, "se2": 2, "se3": 3}[k]
        shift = [float(rng.choice([-1.0, 1.0]) * 10.0 ** rng.uniform(4, 7)) for _ in range(nt0)]
        sep = float(10 ** rng.uniform(-3, 0.5))
        pa = [sh + float(d) for sh, d in zip(shift, rng.normal(size=nt0) * sep)] + list(pa[nt0:])
        pb = [sh + float(d) for sh, d in zip(shift, rng.normal(size=nt0) * sep)] + list(pb[nt0:])
        ctx.count("class:far_from_origin_close_together")
    elif rng.random() < 0.2:
        # operands that coincide in part (equal values in distinct objects): same orientation, same position, one shared coordinate, all equal
        pb, how = gen.coincide(rng, k, pa, pb)
        ctx.count("class:operands_coincide:" + how)
        if rng.random() < 0.4:
            nt = 2 if kp == "r2" else 3
            j = int(rng.integers(nt))
            pt = list(pt)
            pt[j] = pa[j]
            ctx.count("class:operands_coincide:point_shares_a_coordinate")
    labels |= la | lb
    if rng.random() < 0.15:
        # two poses far from the origin but close together: what depends on the difference only must stay accurate
        nt0 = {"r2": 2, "r3": 3, "se2": 2, "se3": 3}[k]
        shift = [float(rng.choice([-1.0, 1.0]) * 10.0 ** rng.uniform(5, 10)) for _ in range(nt0)]
        pa = [sh + float(d) for sh, d in zip(shift, rng.normal(size=nt0) * 3.0)] + pa[nt0:]
        pb = [sh + float(d) for sh, d in zip(shift, rng.normal(size=nt0) * 3.0)] + pb[nt0:]
        ctx.count("class:far_from_origin_close_together")
    A, B, PT = M.mkpose(k, pa), M.mkpose(k, pb), M.mkpose(kp, pt)
    ctx.count("class:kind:" + k)
    for lab in labels:
        ctx.count("class:" + lab)
    case, nontriv, results = all_methods(ctx, k, kp, A, B, PT, {})
    if i % 3 == 0:
        # history: a caller post-processes the returned matrices in place and updates the pose objects in place;
        # later calls must still return the derivative at the current operands
        for J in results.values():
            if isinstance(J, np.ndarray) and J.flags.writeable:
                J *= -3.0
                J[0] = 7.0
        for X, kk in ((A, k), (B, k), (PT, kp)):
            new, _ = gen.pose(rng, kk, maxexp)
            vals_new = np.array(M.fl(M.mkpose(kk, new)))
            if rng.random() < 0.5:
                X[:] = vals_new
            else:
                np.copyto(np.asarray(X), vals_new)  # a write that does not go through the pose object's own __setitem__
        ctx.count("class:after_inplace_modification")
        all_methods(ctx, k, kp, A, B, PT, {"after_inplace_modification": True})
    if nontriv:
        ctx.nontrivial(gen.fingerprint(case))
    ctx.sample(case, cap=2)


def all_methods(ctx, k, kp, A, B, PT, extra_feats):
    # history: the operands have been *used* before their Jacobians are asked for (matrix form, inverse, compositions): nothing those calls
    # compute or cache may leak into the Jacobians
    with np.errstate(all="ignore"):
        try:
            for X in (A, B):
                if hasattr(X, "to_matrix"):
                    X.to_matrix()
                X.inverse
                X.to_compact()
            A + B
            A - B
            A + PT
        except Exception:  # noqa: BLE001 - hostile operands; only the Jacobians are judged here
            pass
    a, b, p = M.fl(A), M.fl(B), M.fl(PT)
    n, c, npt = R.FD[k], R.CD[k], R.FD[kp]
    s = 1.0 + R.tmag(k, a) + R.tmag(k, b) + R.tmag(kp, p)
    case = dict({"kind": k, "self": a, "other": b, "point": p}, **extra_feats)

    # table: method -> (args, documented shape, reference op as function of (operand list), operand value, operand kind, real op result)
    with np.errstate(all="ignore"):
        ops = {
            "oplus_self": (lambda x: R.oplus(k, x, b), a, k, M.fl(A + B)),
            "oplus_other": (lambda x: R.oplus(k, a, x), b, k, M.fl(A + B)),
            "ominus_self": (lambda x: R.ominus(k, x, b), a, k, M.fl(A - B)),
            "ominus_other": (lambda x: R.ominus(k, a, x), b, k, M.fl(A - B)),
            "point_self": (lambda x: R.act(k, x, p), a, k, M.fl(A + PT)),
            "point_point": (lambda x: R.act(k, a, x), p, kp, M.fl(A + PT)),
            "inverse": (lambda x: R.inv(k, x), a, k, M.fl(A.inverse)),
        }
    table = [
        ("jacobian_self_oplus_other_wrt_self", (B,), (n, n), "oplus_self", None),
        ("jacobian_self_oplus_other_wrt_self_compact", (B,), (c, n), "oplus_self", "jacobian_self_oplus_other_wrt_self"),
        ("jacobian_self_oplus_other_wrt_other", (B,), (n, n), "oplus_other", None),
        ("jacobian_self_oplus_other_wrt_other_compact", (B,), (c, n), "oplus_other", "jacobian_self_oplus_other_wrt_other"),
        ("jacobian_self_ominus_other_wrt_self", (B,), (n, n), "ominus_self", None),
        ("jacobian_self_ominus_other_wrt_self_compact", (B,), (c, n), "ominus_self", "jacobian_self_ominus_other_wrt_self"),
        ("jacobian_self_ominus_other_wrt_other", (B,), (n, n), "ominus_other", None),
        ("jacobian_self_ominus_other_wrt_other_compact", (B,), (c, n), "ominus_other", "jacobian_self_ominus_other_wrt_other"),
        ("jacobian_self_oplus_point_wrt_self", (PT,), (npt, n), "point_self", None),
        ("jacobian_self_oplus_point_wrt_point", (PT,), (npt, npt), "point_point", None),
        ("jacobian_inverse", (), (n, n), "inverse", None),
    ]
    results = {}
    for name, args, shape, opname, full_of in table:
        ctx.count("method:" + name)
        feats = dict({"kind": k, "method": name}, **extra_feats)
        with np.errstate(all="ignore"):
            try:
                Jraw = getattr(A, name)(*args)
                J = np.asarray(Jraw, dtype=float)
            except Exception as ex:
                ctx.check("shape", False, dict(feats, exception=type(ex).__name__), {"message": str(ex)[:200]}, case)
                continue
        results[name] = Jraw if isinstance(Jraw, np.ndarray) else J
        if not ctx.check("shape", J.shape == shape, feats, {"shape": J.shape, "documented": shape}, case):
            continue
        if full_of is not None and full_of in results and np.asarray(results[full_of]).shape[0] >= c:
            ctx.check("compact-rows", np.array_equal(J, np.asarray(results[full_of], dtype=float)[:c]), feats, {"compact": J, "full_rows": np.asarray(results[full_of])[:c]}, case)
        f, x0, kx, real_res = ops[opname]
        # derivative along the manifold of the operand
        rows = J.shape[0]

        def along(d, f=f, x0=x0, kx=kx):
            return f(R.box(kx, x0, d))
        val, Jref = R.jac(along, R.CD[kx])
        Jref = Jref[:rows]
        sgn = quat_sign(k, real_res, R.vals(f(x0))) if len(real_res) == 7 else 1.0
        if sgn < 0:
            Jref = Jref.copy()
            Jref[3:] *= -1.0
        with np.errstate(all="ignore"):
            JB = np.asarray((A if x0 is a else B if x0 is b else PT).jacobian_boxplus(), dtype=float)
        if JB.shape != (R.FD[kx], R.CD[kx]):
            ctx.check("boxplus-jacobian", False, {"kind": kx, "why": "shape"}, {"shape": JB.shape}, case)
            continue
        chained = J @ JB
        s_m = s
        if "ominus" in name:
            # a (-) b depends on the positions through their difference only (and the implementation subtracts first)
            ntm = {"r2": 2, "r3": 3, "se2": 2, "se3": 3}[k]
            s_m = 1.0 + max(abs(x - y) for x, y in zip(a[:ntm], b[:ntm]))
        tol = 1e-11 * s_m * (1.0 + np.abs(Jref).max())
        ctx.close("manifold-derivative", chained, Jref, tol, feats, {"scale": s}, case)
        if kx in ("r2", "r3", "se2") and k != "se3":
            _, Jamb = R.jac_ambient(f, x0)
            ctx.close("ambient-derivative", J, Jamb[:rows], 1e-11 * s_m * (1.0 + np.abs(Jamb).max()), feats, {"scale": s_m}, case)
    # jacobian_boxplus itself
    ctx.count("method:jacobian_boxplus")
    with np.errstate(all="ignore"):
        JB = np.asarray(A.jacobian_boxplus(), dtype=float)
    with np.errstate(all="ignore"):
        results["jacobian_boxplus"] = A.jacobian_boxplus()
    if ctx.check("shape", JB.shape == (n, c), dict({"kind": k, "method": "jacobian_boxplus"}, **extra_feats), {"shape": JB.shape, "documented": (n, c)}, case):
        _, Jb = R.jac(lambda d: R.box(k, a, d), c)
        ctx.close("boxplus-jacobian", JB, Jb, 1e-11 * (1.0 + np.abs(Jb).max()), dict({"kind": k, "method": "jacobian_boxplus"}, **extra_feats), None, case)
    nontriv = R.tmag(k, a) > 0 and R.tmag(k, b) > 0
    if k == "se2":
        nontriv = nontriv and abs(a[2]) > 1e-12 and abs(b[2]) > 1e-12
    if k == "se3":
        nontriv = nontriv and abs(abs(a[6]) - 1) > 1e-12 and abs(abs(b[6]) - 1) > 1e-12
    return case, nontriv, results


def extra_stage(tier, seed, tmp):
    """thorough tier: the repository's own test-suite as a workload under this property's monitors."""
    if tier != "thorough":
        return None
    from ..runner import suite_under_monitors

    return suite_under_monitors("C10", seed, tmp)
