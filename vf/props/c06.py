"""C06 - fixed vertices never move; free vertices solve the reduced problem.

Events: bitwise snapshot of every vertex pose and fixed flag before Graph.optimize(...) and after it in every
outcome (normal return or exception - try/finally); solver-boundary records; injected solver faults.
Oracle: fixed poses unchanged (<= 4 ulp, NaN counts as changed); fixed flags = entry flags (+ first vertex if asked);
on well-posed graphs the free part equals the reduced Gauss-Newton solution (shared with C03) even after more vertices
(also isolated ones, landmarks, all of them) are marked fixed.
"""
import math

import numpy as np

from .. import gen, model as M, refmodel as R
from ..monitors import SolverSpy
from ..runner import Skip
from . import c03

RULE = ("cases from rng(seed, 6, 0, i), mode = i mod 7: (0) well-posed cluster graph + extra fixed vertices incl. fixed vertices with no incident edge, fixed "
        "landmarks: one step vs reduced solution; (1) 1..20 iterations from near or far (diverging) starts; (2) under-constrained: one component without "
        "fixed vertex -> singular solve; (3) injected fault at iteration j (solver returns NaN / inf / partially NaN vector or raises; an edge's error function raises mid-assembly); (4) free vertex without "
        "edges (singular); (5) all vertices fixed; (6) histories of 2..4 optimize() calls on one graph with fixed flags switched on/off between calls, each call compared with a fresh "
        "graph built in the same state; initial poses may share storage (same pose object / numpy array). all pose types, fix_first_pose in {True, False}. distinct = spec fingerprint + mode; non-trivial = "
        ">=1 fixed vertex with incident edges of non-zero error, or a fault case.")
REQ = ["eval:fixed-pose-unchanged", "eval:fixed-flags", "mode:0", "mode:1", "mode:2", "mode:3", "mode:4", "mode:5", "mode:6", "eval:same-as-fresh-graph-in-same-state", "class:shared_pose_storage", "class:no_vertex_marked_fixed", "outcome:returned", "class:isolated_fixed_vertex",
       "class:singular_solve", "class:fault_injected", "fault:edge-raise", "fault:raise", "fault:nan", "eval:gn-step-applied", "class:nonfinite_free_vertices_observed"]
PLAN = {
    "quick": {"cases": 1800, "soft_s": 80, "min_nontrivial": 500, "require": REQ},
    "thorough": {"cases": 90000, "soft_s": 1300, "min_nontrivial": 20000, "require": REQ},
}
ASSUMPTIONS = ["fault cases decide only clauses (a)/(b) (fixed poses and flags); the reduced-solution clause is decided on well-posed cases"]


def same_pose(a, b):
    for x, y in zip(a, b):
        if x == y:
            continue
        if not (math.isfinite(x) and math.isfinite(y)):
            return False
        if abs(x - y) > 4 * R.EPS * max(abs(x), abs(y), 1e-300) and abs(x - y) > 4 * 5e-324:
            return False
    return True


def observe_run(ctx, g, kw, feats, case, fault_plan=None):
    """Run the real optimizer and check clauses (a) and (b) in whatever outcome."""
    verts = g._vertices
    ffp = kw.get("fix_first_pose", True)
    fixed_entry = [bool(v.fixed) for v in verts]
    expect_fixed = [f or (ffp and j == 0) for j, f in enumerate(fixed_entry)]
    before = M.snapshot_poses(g)
    incident = {id(v): 0 for v in verts}
    for e in g._edges:
        for v in e.vertices:
            incident[id(v)] += 1
    outcome = "returned"
    res = None
    spy = SolverSpy(fault_plan=fault_plan, keep=False)
    try:
        with spy:
            res = M.quiet_optimize(g, **kw)
    except Exception as ex:
        outcome = "raised:" + type(ex).__name__
    finally:
        after = M.snapshot_poses(g)
        flags = [bool(v.fixed) for v in verts]
    ctx.count("outcome:" + outcome)
    nonfinite_free = False
    for j, v in enumerate(verts):
        if expect_fixed[j]:
            iso = incident[id(v)] == 0
            f = dict(feats, outcome=outcome, isolated=iso, kind=M.kind(v.pose), became_nonfinite=not all(math.isfinite(x) for x in after[j]),
                     first_listed_by_flag=(j == 0 and ffp and not fixed_entry[0]))
            ctx.check("fixed-pose-unchanged", same_pose(before[j], after[j]), f, {"vertex": j, "before": before[j], "after": after[j]}, case)
        elif not all(math.isfinite(x) for x in after[j]):
            nonfinite_free = True
    if nonfinite_free:
        ctx.count("class:nonfinite_free_vertices_observed")
    ctx.check("fixed-flags", flags == expect_fixed, dict(feats, outcome=outcome), {"entry": fixed_entry, "exit": flags, "fix_first_pose": ffp}, case)
    return outcome, res, before, after, spy


def add_isolated(rng, spec, fixed, n=None):
    used = {v["id"] for v in spec["vertices"]}
    for _ in range(int(rng.integers(1, 3)) if n is None else n):
        vid, _ = gen.vertex_id(rng, used)
        k = str(rng.choice(R.KINDS))
        v = {"id": vid, "kind": k, "pose": gen.mild_pose(rng, k), "fixed": fixed}
        spec["vertices"].insert(int(rng.integers(0, len(spec["vertices"]) + 1)), v)


def run_case(ctx, i, rng):
    mode = i % 7
    ffp = bool(rng.random() < 0.5)
    ctx.count("mode:%d" % mode)
    feats = {"mode": mode}
    nontrivial = False
    if mode == 6:
        return history_case(ctx, i, rng, ffp)
    if mode == 1 and rng.random() < 0.3:
        # nothing marked fixed: fix_first_pose=False must not fix anything (well-posed through priors, or singular)
        anchored = bool(rng.random() < 0.6)
        spec, labels = gen.cluster_graph(rng, fix_mode=("none_prior" if anchored else "first"))
        for v in spec["vertices"]:
            v["fixed"] = False
        ctx.count("class:no_vertex_marked_fixed")
        g = M.build(spec)
        kw = {"max_iter": int(rng.integers(1, 6)), "tol": 0.0, "fix_first_pose": ffp}
        case = {"graph": {k: v for k, v in spec.items() if k != "truth_by_id"}, "kwargs": kw, "mode": mode}
        observe_run(ctx, g, kw, dict(feats, nothing_marked_fixed=True), case)
        ctx.nontrivial(gen.fingerprint({"spec": spec, "mode": "nofix", "ffp": ffp}))
        return
    if mode == 0:
        spec, labels = gen.cluster_graph(rng, alias=bool(rng.random() < 0.4), size=((30, 60) if rng.random() < 0.03 else (2, 6)))
        if "shared_pose_storage" in labels:
            ctx.count("class:shared_pose_storage")
        sub = int(rng.integers(0, 4))
        if sub in (0, 1):
            add_isolated(rng, spec, True)
            ctx.count("class:isolated_fixed_vertex")
            feats["isolated_fixed_vertex"] = True
        if sub in (1, 2):
            for v in spec["vertices"]:
                if v["kind"] in ("r2", "r3") and rng.random() < 0.5:
                    v["fixed"] = True
                    ctx.count("class:fixed_landmark_or_point")
        if sub == 3:
            for v in spec["vertices"]:
                if rng.random() < 0.5:
                    v["fixed"] = True
        case = {"graph": {k: v for k, v in spec.items() if k != "truth_by_id"}, "fix_first_pose": ffp, "mode": mode}
        # clause (c): one step equals the reduced solution, result finite
        try:
            res = c03.one_step_check(ctx, spec, labels, ffp, case)
        except Skip as s:
            ctx.skip(s.reason)
            res = None
        # clauses (a), (b)
        g = M.build(spec)
        observe_run(ctx, g, {"max_iter": 1, "tol": 0.0, "fix_first_pose": ffp}, feats, case)
        nontrivial = True
    elif mode == 1:
        far = rng.random() < 0.5
        spec, labels = gen.cluster_graph(rng, init_t=(float(10 ** rng.uniform(0, 3)) if far else 0.2), init_r=(1.5 if far else 0.1), custom=bool(rng.random() < 0.5),
                                         alias=bool(rng.random() < 0.4))
        if "shared_pose_storage" in labels:
            ctx.count("class:shared_pose_storage")
        ctx.count("class:far_start" if far else "class:near_start")
        g = M.build(spec)
        kw = {"max_iter": int(rng.integers(1, 21)), "tol": float(rng.choice([0.0, 1e-6, 1e-4])), "fix_first_pose": ffp}
        case = {"graph": {k: v for k, v in spec.items() if k != "truth_by_id"}, "kwargs": kw, "mode": mode}
        observe_run(ctx, g, kw, feats, case)
        nontrivial = True
    elif mode == 2:
        spec, labels = gen.cluster_graph(rng, kinds=[str(x) for x in rng.choice(R.KINDS, size=int(rng.integers(2, 4)))], extra_fixed=False)
        # un-fix one whole cluster: pick a fixed vertex that is not listed first and clear every fixed flag of its kind-cluster
        vs = spec["vertices"]
        fixed_idx = [j for j, v in enumerate(vs) if v["fixed"]]
        if len(fixed_idx) < 2:
            raise Skip("generator: fewer than two fixed vertices")
        drop = fixed_idx[int(rng.integers(len(fixed_idx)))]
        if ffp and drop == 0:
            drop = [j for j in fixed_idx if j != 0][0]
        vs[drop]["fixed"] = False
        ctx.count("class:singular_solve")
        feats["underconstrained"] = True
        g = M.build(spec)
        kw = {"max_iter": int(rng.integers(1, 6)), "tol": 0.0, "fix_first_pose": ffp}
        case = {"graph": {k: v for k, v in spec.items() if k != "truth_by_id"}, "kwargs": kw, "mode": mode}
        observe_run(ctx, g, kw, feats, case)
        nontrivial = True
    elif mode == 3:
        spec, labels = gen.cluster_graph(rng)
        g = M.build(spec)
        fault = str(rng.choice(["nan", "inf", "raise", "nan-one", "edge-raise"]))
        at = int(rng.integers(1, 5))
        if fault == "edge-raise":
            # the fault is raised by an edge's own error function in the middle of the assembly of iteration `at`.  The faulty edge provides its own
            # Jacobians: an error function that raises *during numerical differentiation* leaves the perturbed vertex un-restored (observed on the
            # unchanged tree: 1e-6 displacement), but exceptions from user code are outside C06's stated fault cases, so that is not driven here.
            v0 = spec["vertices"][int(rng.integers(len(spec["vertices"])))]
            nt = {"r2": 2, "r3": 3, "se2": 2, "se3": 3}[v0["kind"]]
            spec["edges"].insert(int(rng.integers(len(spec["edges"]) + 1)), {"type": "custom:faulty", "ids": [v0["id"]], "info": np.eye(nt).tolist(), "est": list(v0["pose"][:nt]),
                                                                          "est_kind": "array", "numeric": False})
            g = M.build(spec)
            for e in g._edges:
                if type(e).__name__ == "FaultyPositionPrior":
                    e.fail_at = int(rng.integers(1, 12)) * at
        kw = {"max_iter": int(rng.integers(at, at + 4)), "tol": 0.0, "fix_first_pose": ffp}
        feats["fault"] = fault
        ctx.count("class:fault_injected")
        ctx.count("fault:" + fault)
        case = {"graph": {k: v for k, v in spec.items() if k != "truth_by_id"}, "kwargs": kw, "mode": mode, "fault": fault, "at_solve": at}
        outcome, res, before, after, spy = observe_run(ctx, g, kw, feats, case, fault_plan=({at: fault} if fault != "edge-raise" else None))
        if fault != "edge-raise" and spy.calls < at:
            ctx.count("fault_not_reached")
        nontrivial = True
    elif mode == 4:
        spec, labels = gen.cluster_graph(rng)
        add_isolated(rng, spec, False, n=1)
        if ffp and not any(e for e in spec["edges"] if spec["vertices"][0]["id"] in e["ids"]):
            ffp = False  # keep the isolated vertex free
        feats["isolated_free_vertex"] = True
        ctx.count("class:singular_solve")
        g = M.build(spec)
        kw = {"max_iter": int(rng.integers(1, 4)), "tol": 0.0, "fix_first_pose": ffp}
        case = {"graph": {k: v for k, v in spec.items() if k != "truth_by_id"}, "kwargs": kw, "mode": mode}
        observe_run(ctx, g, kw, feats, case)
        nontrivial = True
    else:
        spec, labels = gen.cluster_graph(rng)
        for v in spec["vertices"]:
            v["fixed"] = True
        if rng.random() < 0.5:
            add_isolated(rng, spec, True)
            feats["isolated_fixed_vertex"] = True
            ctx.count("class:isolated_fixed_vertex")
        feats["all_fixed"] = True
        g = M.build(spec)
        kw = {"max_iter": int(rng.integers(1, 6)), "tol": float(rng.choice([0.0, 1e-4])), "fix_first_pose": ffp}
        case = {"graph": {k: v for k, v in spec.items() if k != "truth_by_id"}, "kwargs": kw, "mode": mode}
        outcome, res, before, after, spy = observe_run(ctx, g, kw, feats, case)
        ctx.check("all-fixed-run-returns", outcome == "returned" and res is not None and res.final_chi2 is not None and math.isfinite(res.final_chi2), feats,
                  {"outcome": outcome}, case)
        nontrivial = True
    if nontrivial:
        ctx.nontrivial(gen.fingerprint({"spec": spec, "mode": mode, "ffp": ffp}))
    ctx.sample({"mode": mode, "n_vertices": len(spec["vertices"]), "fixed": [bool(v["fixed"]) for v in spec["vertices"]], "kinds": [v["kind"] for v in spec["vertices"]],
                "features": feats}, cap=3)


def history_case(ctx, i, rng, ffp):
    """Several optimize() calls on one graph, fixed flags changed in between: no stale fixed set, no hidden state."""
    spec, labels = gen.cluster_graph(rng, size=(3, 6), alias=bool(rng.random() < 0.3))
    if "shared_pose_storage" in labels:
        ctx.count("class:shared_pose_storage")
    g = M.build(spec)
    ffp = False
    toggled = []
    ncalls = int(rng.integers(2, 5))
    hist = []
    for c in range(ncalls):
        # switch flags: fix one more free vertex, or release one that was fixed earlier in this history (clusters keep their original fixed vertex)
        free_idx = [j for j, v in enumerate(g._vertices) if not v.fixed]
        if c > 0 or rng.random() < 0.5:
            if toggled and rng.random() < 0.4:
                j = toggled.pop(int(rng.integers(len(toggled))))
                g._vertices[j].fixed = False
                hist.append("release %d" % j)
            elif free_idx:
                j = free_idx[int(rng.integers(len(free_idx)))]
                g._vertices[j].fixed = True
                toggled.append(j)
                hist.append("fix %d" % j)
        kw = {"max_iter": int(rng.integers(1, 3)), "tol": 0.0, "fix_first_pose": ffp}
        # a fresh graph in the same state
        now = gen.copy_spec(spec)
        now.pop("share", None)
        for v, lv in zip(now["vertices"], g._vertices):
            v["pose"] = M.fl(lv.pose)
            v["fixed"] = bool(lv.fixed)
        fresh = M.build(now)
        case = {"graph": {k: v for k, v in now.items() if k != "truth_by_id"}, "kwargs": kw, "mode": 6, "history": list(hist), "call": c}
        feats = {"mode": 6, "call": c}
        outcome, res, before, after, spy = observe_run(ctx, g, kw, feats, case)
        try:
            M.quiet_optimize(fresh, **kw)
        except Exception:
            ctx.skip("fresh graph raised")
            break
        fa = M.snapshot_poses(fresh)
        same = outcome == "returned" and all(len(p) == len(q) and all((x == y) or (x != x and y != y) or abs(x - y) <= 1e-9 * max(1.0, abs(x)) for x, y in zip(p, q)) for p, q in zip(after, fa))
        ctx.check("same-as-fresh-graph-in-same-state", same, feats, {"history": hist, "outcome": outcome}, case)
        hist.append("optimize(%s)" % kw)
        if not all(math.isfinite(x) for p in after for x in p):
            break
    ctx.nontrivial(gen.fingerprint({"spec": spec, "hist": hist}))
    ctx.sample({"mode": 6, "history": hist, "n_vertices": len(spec["vertices"])}, cap=1)


# --------------------------------------------------------------------------- #
# pinned regression inputs (the concrete inputs behind findings F1, F2)
# --------------------------------------------------------------------------- #
def _pinned_graph(isolated_fixed, second_component_free):
    vs = [{"id": 0, "kind": "se2", "pose": [0.0, 0.0, 0.0], "fixed": True}, {"id": 1, "kind": "se2", "pose": [1.1, 0.1, 0.05], "fixed": False},
          {"id": 2, "kind": "se2", "pose": [2.0, -0.1, 0.1], "fixed": False}]
    es = [{"type": "odo", "ids": [0, 1], "info": np.eye(3).tolist(), "est": [1.0, 0.0, 0.0], "est_kind": "se2"},
          {"type": "odo", "ids": [1, 2], "info": np.eye(3).tolist(), "est": [1.0, 0.0, 0.0], "est_kind": "se2"}]
    if isolated_fixed:
        vs.append({"id": 7, "kind": "se2", "pose": [5.0, 5.0, 1.0], "fixed": True})
    if second_component_free:
        vs += [{"id": 10, "kind": "r2", "pose": [0.0, 0.0], "fixed": False}, {"id": 11, "kind": "r2", "pose": [1.0, 1.0], "fixed": False}]
        es.append({"type": "odo", "ids": [10, 11], "info": np.eye(2).tolist(), "est": [1.0, 0.5], "est_kind": "r2"})
    return {"vertices": vs, "edges": es}


def pinned_f1(ctx):
    """F1: a fixed vertex without incident edge in an otherwise well-posed graph."""
    spec = _pinned_graph(True, False)
    case = {"graph": spec, "pinned": "F1"}
    c03.one_step_check(ctx, spec, {"pinned_F1"}, False, case)
    observe_run(ctx, M.build(spec), {"max_iter": 3, "tol": 0.0, "fix_first_pose": False}, {"mode": 0, "isolated_fixed_vertex": True, "pinned": "F1"}, case)
    ctx.nontrivial("pinned-F1")


def pinned_f2(ctx):
    """F2: a singular solve (second component without fixed vertex) while some vertex is fixed."""
    spec = _pinned_graph(False, True)
    case = {"graph": spec, "pinned": "F2"}
    observe_run(ctx, M.build(spec), {"max_iter": 2, "tol": 0.0, "fix_first_pose": False}, {"mode": 2, "underconstrained": True, "pinned": "F2"}, case)
    ctx.nontrivial("pinned-F2")


PINNED = [pinned_f1, pinned_f2]


def extra_stage(tier, seed, tmp):
    """thorough tier: the repository's own test-suite as a workload under this property's monitors (every Graph.optimize / Graph.from_g2o call)."""
    if tier != "thorough":
        return None
    from ..runner import suite_under_monitors

    return suite_under_monitors("C06", seed, tmp)
