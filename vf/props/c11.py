"""C11 - manifold invariants are preserved: angle range and unit quaternions.

Monitor: online invariant evaluated on every pose produced along operation chains (up to 10^4 operations), optimizer runs
(1..50 iterations, driven one iteration at a time), the loader, and normalize().
Oracle: -pi <= theta <= pi and theta congruent (mod 2 pi) to the exact sum/difference/negation of the operand angles, reduced
with 60-digit decimal arithmetic (tolerance 2 eps |theta_unreduced| + 8 eps); | ||q|| - 1 | <= 8 eps (depth + 1);
normalize(): unit norm (4 eps), w >= 0, parallel to the input.
"""
import math
from decimal import Decimal, getcontext

import numpy as np

from .. import gen, model as M, refmodel as R

getcontext().prec = 70
PI_D = Decimal("3.14159265358979323846264338327950288419716939937510582097494459230781640628620899")
TWO_PI_D = 2 * PI_D

RULE = ("cases from rng(seed, 11, 0, i), mode = i mod 5: (0) SE(2) chain and (1) SE(3) chain of L mixed operations (+, -, inverse, copy, boxplus, constructor, from_matrix), "
        "L = 400 (quick) / up to 10^4 (thorough), operands hostile (constructor angles sometimes preceded by the same value passed as float32/float16/int; angles to 1e6, both sides of +-pi, nextafter(pi); quaternions w<0, w=0, 180 deg); (2) optimizer runs of 1..50 "
        "iterations on SE(2)/SE(3) graphs (converging and diverging), driven iteration by iteration (checked after each) or as one call (checked at the end); (3) loader lines with hostile angles / non-unit measurement quaternions; "
        "(4) normalize() on quaternions of norm 1e-3..1e3, incl. exactly / almost unit ones with w<0. distinct = fingerprint of the chain's operand stream / graph; non-trivial = chain with >= 50 operations "
        "or an optimizer run with >= 1 completed iteration or a loader/normalize case with a non-canonical input."
        " later additions: identity() objects written to by their owner inside the chains; every other + / boxplus of the chains is written as augmented assignment on a copy (the form Graph.optimize uses).")
REQ = ["eval:se2-angle-in-range", "eval:se2-angle-congruent", "eval:se3-unit-norm", "eval:normalize-postcondition", "eval:optimizer-vertex-invariant", "eval:loader-angle", "mode:0", "mode:1",
       "mode:2", "mode:3", "mode:4", "class:angle_huge", "class:angle_nearpi", "class:op:boxplus", "class:op:inverse", "class:op:sub", "class:diverging_run", "class:single_call_run_10+_iterations", "class:iteration_by_iteration_run", "class:normalize_input:unit_wneg",
       "class:normalize_input:almost_unit_wneg", "class:normalize_again_after_in_place_write", "class:same_value_earlier_in_narrower_type", "class:identity_object_written_by_its_owner", "class:op:boxplus_augmented_assignment"]
PLAN = {
    "quick": {"cases": 1000, "soft_s": 70, "min_nontrivial": 300, "require": REQ},
    "thorough": {"cases": 12000, "soft_s": 1500, "min_nontrivial": 3000, "require": REQ},
}
ASSUMPTIONS = ["depth-scaled norm bound 8 eps (d+1): a drift slower than that is not detected; operands of SE(3) operations are unit quaternions"]


def congruent(theta, exact_d, unreduced_mag):
    """|theta - exact| mod 2pi, computed in decimal."""
    diff = Decimal(theta) - exact_d
    kk = (diff / TWO_PI_D).to_integral_value()
    res = abs(diff - kk * TWO_PI_D)
    return float(res), 2 * R.EPS * unreduced_mag + 8 * R.EPS


def check_se2(ctx, P, exact_d, mag, op, case):
    th = float(P[2])
    okr = ctx.check("se2-angle-in-range", -math.pi <= th <= math.pi, {"op": op}, {"theta": th, "op": op}, case)
    if exact_d is not None and okr:
        res, tol = congruent(th, exact_d, mag)
        ctx.margin("se2-angle-congruent", res / tol)
        ctx.check("se2-angle-congruent", res <= tol, {"op": op}, {"theta": th, "exact": str(exact_d)[:40], "residual": res, "tol": tol}, case)


def se2_chain(ctx, rng, L):
    a0, c0 = gen.angle(rng)
    P = M.PoseSE2([0.3, -0.2], a0)
    check_se2(ctx, P, Decimal(a0), abs(a0), "constructor", {"angle": a0})
    stream = [a0]
    for step in range(L):
        op = rng.choice(["add", "sub", "inverse", "copy", "boxplus", "constructor", "from_matrix", "rsub"], p=[0.25, 0.15, 0.1, 0.05, 0.2, 0.1, 0.05, 0.1])
        th = Decimal(float(P[2]))
        if op in ("add", "sub", "rsub", "boxplus", "constructor"):
            a, cl = gen.angle(rng)
            stream.append(a)
            if cl == "huge" or cl == "shifted":
                ctx.count("class:angle_huge")
            if cl.startswith("nearpi") or cl == "exact":
                ctx.count("class:angle_nearpi")
        with np.errstate(all="ignore"):
            if op == "add":
                Q = M.PoseSE2([0.1, 0.2], a)
                check_se2(ctx, Q, Decimal(a), abs(a), "constructor", {"angle": a})
                tq = Decimal(float(Q[2]))
                if step % 2:
                    P2 = P.copy()
                    P2 += Q
                else:
                    P2 = P + Q
                check_se2(ctx, P2, th + tq, abs(float(th + tq)), "add", {"a": float(th), "b": float(tq)})
            elif op == "sub":
                Q = M.PoseSE2([0.1, 0.2], a)
                tq = Decimal(float(Q[2]))
                P2 = P - Q
                check_se2(ctx, P2, th - tq, abs(float(th - tq)), "sub", {"a": float(th), "b": float(tq)})
                ctx.count("class:op:sub")
            elif op == "rsub":
                Q = M.PoseSE2([0.1, 0.2], a)
                tq = Decimal(float(Q[2]))
                P2 = Q - P
                check_se2(ctx, P2, tq - th, abs(float(tq - th)), "sub", {"a": float(tq), "b": float(th)})
            elif op == "inverse":
                P2 = P.inverse
                check_se2(ctx, P2, -th, abs(float(th)), "inverse", {"a": float(th)})
                ctx.count("class:op:inverse")
            elif op == "copy":
                P2 = P.copy()
                check_se2(ctx, P2, th, abs(float(th)), "copy", {"a": float(th)})
            elif op == "boxplus":
                d = np.array([0.01, -0.02, a])
                if step % 2:
                    # the form the optimizer uses: augmented assignment on the vertex's pose (no rng draw: the operand stream is unchanged)
                    P2 = P.copy()
                    P2 += d
                    ctx.count("class:op:boxplus_augmented_assignment")
                else:
                    P2 = P + d
                check_se2(ctx, P2, th + Decimal(a), abs(float(th)) + abs(a), "boxplus", {"a": float(th), "delta": a})
                ctx.count("class:op:boxplus")
            elif op == "constructor" and rng.random() < 0.15:
                # the identity element, obtained from the library; an earlier identity object may have been written to by its owner
                I = M.PoseSE2.identity()
                ctx.check("se2-angle-in-range", float(I[2]) == 0.0 and float(I[0]) == 0.0 and float(I[1]) == 0.0, {"op": "identity()"}, {"identity": M.fl(I)}, None)
                P2 = P + I
                check_se2(ctx, P2, th, abs(float(th)), "add identity()", {"a": float(th)})
                I[2] = float(rng.uniform(-3, 3))  # the caller owns what it was handed and uses it as a start value
                I[0] = 7.0
                ctx.count("class:identity_object_written_by_its_owner")
            elif op == "constructor":
                if rng.random() < 0.3:
                    # history: the same numeric value was passed earlier in another floating type (only the float64 call below is judged)
                    a = float(np.float32(a))
                    stream[-1] = a
                    other = rng.choice(["f32", "f16", "int"])
                    try:
                        if other == "f32":
                            M.PoseSE2([0.0, 0.0], np.float32(a))
                        elif other == "f16" and abs(a) < 6e4:
                            a = float(np.float16(a))
                            stream[-1] = a
                            M.PoseSE2([0.0, 0.0], np.float16(a))
                        elif abs(a) < 1e6:
                            a = float(round(a))
                            stream[-1] = a
                            M.PoseSE2([0.0, 0.0], int(a))
                    except Exception:  # noqa: BLE001 - narrower types are outside the property; only their after-effects matter
                        pass
                    ctx.count("class:same_value_earlier_in_narrower_type")
                P2 = M.PoseSE2([float(P[0]), float(P[1])], a)
                check_se2(ctx, P2, Decimal(a), abs(a), "constructor", {"angle": a})
            else:
                P2 = M.PoseSE2.from_matrix(P.to_matrix())
                th2 = float(P2[2])
                ctx.check("se2-angle-in-range", -math.pi <= th2 <= math.pi, {"op": "from_matrix"}, {"theta": th2}, None)
                ctx.check("se2-angle-congruent", R.ang_diff(th2, float(th)) <= 16 * R.EPS, {"op": "from_matrix"}, {"theta": th2, "from": float(th)}, None)
        if not all(math.isfinite(x) for x in M.fl(P2)):
            ctx.check("se2-angle-in-range", False, {"op": op, "why": "non-finite"}, {"pose": M.fl(P2)}, None)
            break
        # keep the translation bounded so that the chain stays in the floating range
        P = M.PoseSE2([math.fmod(float(P2[0]), 1e3), math.fmod(float(P2[1]), 1e3)], 0.0)
        P[2] = P2[2]
    return stream


def se3_chain(ctx, rng, L):
    q0, _ = gen.unit_quat(rng)
    P = M.PoseSE3([0.1, 0.2, 0.3], q0)
    depth = 0
    stream = [q0]
    worst = 0.0
    for step in range(L):
        op = rng.choice(["add", "sub", "rsub", "inverse", "copy", "boxplus"], p=[0.3, 0.15, 0.1, 0.1, 0.05, 0.3])
        with np.errstate(all="ignore"):
            if op in ("add", "sub", "rsub"):
                q, cl = gen.unit_quat(rng)
                stream.append(q)
                Q = M.PoseSE3([0.3, -0.1, 0.2], q)
                if op == "add" and step % 2:
                    P2 = P.copy()
                    P2 += Q
                else:
                    P2 = P + Q if op == "add" else (P - Q if op == "sub" else Q - P)
                if op != "add":
                    ctx.count("class:op:sub")
            elif op == "inverse":
                P2 = P.inverse
                ctx.count("class:op:inverse")
            elif op == "copy" and rng.random() < 0.5:
                I = M.PoseSE3.identity()
                ctx.check("se3-unit-norm", M.fl(I) == [0.0, 0.0, 0.0, 0.0, 0.0, 0.0, 1.0], {"op": "identity()"}, {"identity": M.fl(I)}, None)
                P2 = P + I
                I[3:] = [0.0, 0.0, 3.0, 4.0]  # the caller owns what it was handed
                I[0] = 7.0
                ctx.count("class:identity_object_written_by_its_owner")
            elif op == "copy":
                P2 = P.copy()
            else:
                v = rng.normal(size=3)
                v *= float(rng.choice([1e-12, 1e-6, 1e-2, 0.3, 0.9, 1.0])) * rng.random() / np.linalg.norm(v)
                stream.append([float(x) for x in v])
                if step % 2:
                    P2 = P.copy()
                    P2 += np.array([0.01, 0.02, -0.01, v[0], v[1], v[2]])
                    ctx.count("class:op:boxplus_augmented_assignment")
                else:
                    P2 = P + np.array([0.01, 0.02, -0.01, v[0], v[1], v[2]])
                ctx.count("class:op:boxplus")
        depth += 1
        nrm = float(np.linalg.norm(np.asarray(P2)[3:]))
        defect = abs(nrm - 1.0)
        bound = 8 * R.EPS * (depth + 1)
        worst = max(worst, defect / bound)
        if not ctx.check("se3-unit-norm", defect <= bound, {"op": op}, {"norm": nrm, "depth": depth, "bound": bound, "pose": M.fl(P2)}, None):
            break
        P = M.PoseSE3([math.fmod(float(P2[0]), 1e3), math.fmod(float(P2[1]), 1e3), math.fmod(float(P2[2]), 1e3)], [float(x) for x in np.asarray(P2)[3:]])
    ctx.margin("se3-unit-norm", worst)
    return stream


def optimizer_run(ctx, rng):
    k = str(rng.choice(["se2", "se3"]))
    diverge = rng.random() < 0.35
    it, ir = (float(rng.uniform(0.5, 3.0)), float(rng.uniform(0.5, 2.0))) if diverge else (0.15, 0.08)
    n = int(rng.integers(3, 12))
    spec = gen.trajectory_graph(rng, k, n, n_loops=int(rng.integers(0, 4)), n_lm=int(rng.integers(0, 3)), meas_t=0.03, meas_r=0.01, init_t=it, init_r=ir,
                                start=gen.normalize_pose(k, gen.mild_pose(rng, k, 20.0)))
    g = M.build(spec)
    iters = int(rng.integers(1, 51))
    if diverge:
        ctx.count("class:diverging_run")
    done = 0
    single_call = bool(rng.random() < 0.5)
    ctx.count("class:single_call_run" if single_call else "class:iteration_by_iteration_run")
    if single_call and iters >= 10:
        ctx.count("class:single_call_run_10+_iterations")
    for j in ([iters - 1] if single_call else range(iters)):
        try:
            M.quiet_optimize(g, max_iter=(iters if single_call else 1), tol=0.0)
        except Exception as ex:
            ctx.count("optimizer_exception:" + type(ex).__name__)
            break
        fin = True
        for v in g._vertices:
            p = M.fl(v.pose)
            if not all(math.isfinite(x) for x in p):
                fin = False
                continue
            if isinstance(v.pose, M.PoseSE2):
                ctx.check("optimizer-vertex-invariant", -math.pi <= p[2] <= math.pi, {"kind": "se2"}, {"theta": p[2], "iteration": j + 1}, {"graph": {kk: vv for kk, vv in spec.items() if kk != "truth"}})
            elif isinstance(v.pose, M.PoseSE3):
                defect = abs(float(np.linalg.norm(p[3:])) - 1.0)
                bound = 8 * R.EPS * (j + 2)
                ctx.margin("optimizer-vertex-invariant", defect / bound)
                ctx.check("optimizer-vertex-invariant", defect <= bound, {"kind": "se3"}, {"norm_defect": defect, "iteration": j + 1, "bound": bound},
                          {"graph": {kk: vv for kk, vv in spec.items() if kk != "truth"}})
        if not fin:
            ctx.count("nonfinite_iterate_ends_chain")
            break
        done += 1
    return spec, done


def loader_case(ctx, rng):
    a, cl = gen.angle(rng)
    if cl in ("huge", "shifted"):
        ctx.count("class:angle_huge")
    line = "VERTEX_SE2 5 1.5 -2.5 %r\n" % a
    v = M.Vertex.from_g2o(line)
    check_se2(ctx, v.pose, Decimal(a), abs(a), "loader-vertex", {"line": line})
    ctx.check("loader-angle", True)
    a2, _ = gen.angle(rng)
    e = M.EdgeOdometry.from_g2o("EDGE_SE2 1 2 0.5 0.25 %r 1 0 0 1 0 1\n" % a2)
    check_se2(ctx, e.estimate, Decimal(a2), abs(a2), "loader-edge", {"angle": a2})
    p = M.G2OParameterSE2Offset.from_g2o("PARAMS_SE2OFFSET 3 0.1 0.2 %r\n" % a2)
    check_se2(ctx, p.value, Decimal(a2), abs(a2), "loader-param", {"angle": a2})
    # SE(3) measurement: renormalised by the loader
    q = rng.normal(size=4)
    q *= float(rng.choice([1.0, 1.0 + 1e-6, 10 ** rng.uniform(-2, 2)])) / np.linalg.norm(q)
    line3 = "EDGE_SE3:QUAT 1 2 1 2 3 %r %r %r %r " % tuple(float(x) for x in q) + " ".join(["1"] * 21) + "\n"
    e3 = M.EdgeOdometry.from_g2o(line3)
    check_normalized(ctx, M.fl(e3.estimate), [1.0, 2.0, 3.0] + [float(x) for x in q], "loader-edge-se3")
    return [a, a2] + [float(x) for x in q]


def check_normalized(ctx, out, inp, where):
    qo, qi = np.array(out[3:]), np.array(inp[3:])
    nrm = float(np.linalg.norm(qo))
    sgn = 1.0 if qi[3] >= 0 else -1.0
    exp = sgn * qi / np.linalg.norm(qi)
    ok = abs(nrm - 1.0) <= 4 * R.EPS and qo[3] >= 0.0 and float(np.abs(qo - exp).max()) <= 4 * R.EPS and out[:3] == inp[:3]
    ctx.check("normalize-postcondition", ok, {"where": where}, {"input": inp, "output": out, "norm": nrm}, None)


def normalize_case(ctx, rng):
    q = rng.normal(size=4)
    cl = rng.choice(["generic", "wneg", "wzero", "tiny", "large", "unit_wneg", "almost_unit_wneg", "almost_unit"])
    if cl in ("wneg", "unit_wneg", "almost_unit_wneg"):
        q[3] = -abs(q[3])
    if cl == "wzero":
        q[3] = 0.0
    scale = {"tiny": 1e-3, "large": 1e3, "unit_wneg": 1.0, "almost_unit_wneg": 1.0 + float(rng.choice([-1, 1]) * 10 ** rng.uniform(-15, -4)),
             "almost_unit": 1.0 + float(rng.choice([-1, 1]) * 10 ** rng.uniform(-15, -4))}.get(str(cl), float(10 ** rng.uniform(-1, 1)))
    q *= scale / np.linalg.norm(q)
    ctx.count("class:normalize_input:" + str(cl))
    t = [float(x) for x in rng.normal(size=3) * 10]
    P = M.PoseSE3(t, [float(x) for x in q])
    inp = M.fl(P)
    P.normalize()
    check_normalized(ctx, M.fl(P), inp, "normalize:" + str(cl))
    if rng.random() < 0.5:
        # history on the same object (and on a numpy copy of it): a new quaternion written in place, then normalize() again
        q2 = rng.normal(size=4) * float(10 ** rng.uniform(-1, 1))
        if rng.random() < 0.5:
            q2[3] = -abs(q2[3])
        for target in (P, np.copy(P).view(M.PoseSE3), P[:].view(M.PoseSE3)):
            target[3:] = q2
            inp2 = M.fl(target)
            target.normalize()
            check_normalized(ctx, M.fl(target), inp2, "normalize:again-after-in-place-write")
        ctx.count("class:normalize_again_after_in_place_write")
    return inp


def run_case(ctx, i, rng):
    mode = i % 5
    ctx.count("mode:%d" % mode)
    if mode in (0, 1):
        if ctx.tier == "quick":
            L = 400
        else:
            L = int(rng.choice([400, 2000, 10000], p=[0.6, 0.3, 0.1]))
        stream = se2_chain(ctx, rng, L) if mode == 0 else se3_chain(ctx, rng, L)
        if len(stream) >= 50:
            ctx.nontrivial(gen.fingerprint({"mode": mode, "stream": stream[:40], "L": L}))
        ctx.sample({"mode": "se2-chain" if mode == 0 else "se3-chain", "operations": L, "first_operands": stream[:4]}, cap=2)
    elif mode == 2:
        spec, done = optimizer_run(ctx, rng)
        if done >= 1:
            ctx.nontrivial(gen.fingerprint(spec))
        ctx.sample({"mode": "optimizer-run", "iterations_completed": done, "n_vertices": len(spec["vertices"])}, cap=1)
    elif mode == 3:
        for _ in range(40):
            vals = loader_case(ctx, rng)
        ctx.nontrivial(gen.fingerprint({"mode": 3, "vals": vals}))
    else:
        for _ in range(40):
            inp = normalize_case(ctx, rng)
        ctx.nontrivial(gen.fingerprint({"mode": 4, "inp": inp}))


def extra_stage(tier, seed, tmp):
    """thorough tier: the repository's own test-suite as a workload under this property's monitors."""
    if tier != "thorough":
        return None
    from ..runner import suite_under_monitors

    return suite_under_monitors("C11", seed, tmp)


def _dataset_case(name, single_call):
    def f(ctx):
        from .. import datasets

        if not datasets.available(name):
            ctx.skip("dataset file missing: " + name)
            return
        spec = datasets.load_spec(name, None)
        g = M.build(spec)
        iters = 12
        for j in ([iters - 1] if single_call else range(iters)):
            try:
                M.quiet_optimize(g, max_iter=(iters if single_call else 1), tol=0.0)
            except Exception as ex:
                ctx.count("optimizer_exception:" + type(ex).__name__)
                break
            for v in g._vertices:
                p = M.fl(v.pose)
                if not all(math.isfinite(x) for x in p):
                    continue
                if isinstance(v.pose, M.PoseSE2):
                    ctx.check("optimizer-vertex-invariant", -math.pi <= p[2] <= math.pi, {"kind": "se2", "where": "dataset:" + name}, {"theta": p[2], "iteration": j + 1})
                elif isinstance(v.pose, M.PoseSE3):
                    defect = abs(float(np.linalg.norm(p[3:])) - 1.0)
                    bound = 8 * R.EPS * (j + 2)
                    ctx.margin("optimizer-vertex-invariant", defect / bound)
                    ctx.check("optimizer-vertex-invariant", defect <= bound, {"kind": "se3", "where": "dataset:" + name}, {"norm_defect": defect, "iteration": j + 1, "bound": bound})
        ctx.count("dataset:" + name)
        ctx.nontrivial("dataset-%s-%s" % (name, single_call))
    return f


DATASET_CASES = [_dataset_case("intel", False), _dataset_case("intel", True), _dataset_case("garage", False), _dataset_case("garage", True)]
