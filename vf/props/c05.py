"""C05 - local convergence to a stationary point on SE(2)/SE(3) (bounded form: within 50 iterations).

Events: OptimizationResult, final vertex poses, initial chi2.
Oracle: chi2 non-increase; Newton decrement of the returned state computed with the independent model (AD Jacobians,
reference errors, dense solve); ground-truth recovery for noise-free measurements.
Calibrated neighbourhood (DESIGN.md section 5, C05): 3..40 poses, step ~1, <= n/2 loop closures, <= 3 landmarks with rotated
offsets, dense SPD information cond <= 1e3, initial right-perturbation sigma_t <= 0.15, sigma_r <= 0.08 rad, measurement noise
sigma_t <= 0.03, sigma_r <= 0.01, tol in 10^U(-10,-3), max_iter = 50.
"""
import math

import numpy as np

from .. import gen, model as M, oracles as O, refmodel as R
from ..runner import Skip

RULE = ("cases from rng(seed, 5, 0, i): SE(2) (even i) / SE(3) (odd i) trajectory graphs inside the calibrated neighbourhood (3..40 poses, loops, U-turns (relative rotations within 0.02 rad of pi), landmarks "
        "with rotated offsets, dense SPD information cond<=1e3, initial perturbation sigma_t<=0.15 sigma_r<=0.08, noise sigma_t<=0.03 sigma_r<=0.01; every 4th "
        "case noise-free; landmark offsets incl. exactly zero lever arms; landmarks sometimes sharing one initial-guess object; every 5th case judges the second run on the same "
        "graph object after a vertex was fixed and another nudged), tol in 10^U(-10,-3), max_iter=50. distinct = spec fingerprint; non-trivial = initial chi2 > 100 x final chi2 or > 1e-6, "
        "with at least 2 complete iterations."
        " later additions: a surveyed (pre-fixed) landmark with the first pose fixed only by the default argument, a loop-closure edge removed between the runs of a history, all information scaled by 1e-12..1e-6 or 1e4..1e9.")
REQ = ["eval:chi2-not-increased", "eval:converged-within-50", "eval:newton-decrement-small", "eval:noise-free-ground-truth-recovered", "class:se2", "class:se3", "class:loops",
       "class:landmarks", "class:noisy", "class:u_turns(relative rotation ~ pi)", "class:second_run_on_same_graph_after_edits", "class:landmarks_share_one_initial_guess_object", "class:landmark_prefixed_first_pose_fixed_by_default_argument", "class:edge_removed_between_runs", "class:information_scaled_by_1e-12..1e-6", "class:information_scaled_by_1e4..1e9"]
PLAN = {
    "quick": {"cases": 2400, "soft_s": 90, "min_nontrivial": 500, "require": REQ},
    "thorough": {"cases": 24000, "soft_s": 1500, "min_nontrivial": 5000, "require": REQ},
}
ASSUMPTIONS = ["claim restricted to the calibrated neighbourhood stated in RULE (un-damped Gauss-Newton may legitimately diverge outside); 'eventually' is decided as 'within 50 iterations'"]


def chi2_noise(g):
    """Rounding noise of the graph chi2 at the current state: 2 |e|^T |Omega| d + |Omega| d^2 with d = 16 eps scale per component."""
    noise = 0.0
    for e in g._edges:
        er = np.abs(M.edge_ref_error(e))
        A = np.abs(np.asarray(e.information, dtype=float))
        d = 16 * R.EPS * O.edge_scale(e)
        noise += 2.0 * float(er @ A @ np.ones(len(er))) * d + float(A.sum()) * d * d
    return noise


def convergence_check(ctx, spec, k, tol, noise_free, n_loops=0, n_lm=0, max_iter=50, where="generated", decrement=True, history_rng=None, far_guess=False):
    """Optimize spec with the real code and decide clauses (a)-(c).  Returns (res, fin, lam2, chi_prev) or None.
    With history_rng the judged run is the *second* one on the same graph object: a first short run, then a free pose vertex is marked fixed and
    another one is nudged (inside the neighbourhood), then the run that is judged (the first run is taken to convergence so that the vertex is frozen at a
    consistent pose: freezing it at an arbitrary intermediate pose makes a large-residual problem on which un-damped Gauss-Newton may legitimately oscillate) - nothing from the first run may leak into it."""
    g = M.build(spec)
    if history_rng is not None:
        try:
            first = M.quiet_optimize(g, tol=1e-10, max_iter=50)
        except Exception:
            raise Skip("first run of the history raised")
        if not first.converged:
            raise Skip("first run of the history did not converge")
        free_pose = [v for v in g._vertices[1:] if M.kind(v.pose) == k and not v.fixed]
        if len(free_pose) >= 2:
            free_pose[int(history_rng.integers(len(free_pose)))].fixed = True
            w = free_pose[int(history_rng.integers(len(free_pose)))]
            if not w.fixed and all(math.isfinite(x) for x in M.fl(w.pose)):
                w.pose = M.mkpose(k, gen.perturb(history_rng, k, M.fl(w.pose), 0.05, 0.03))
        if history_rng.random() < 0.5:
            # outlier rejection between the runs: a loop-closure edge is taken out of the graph's edge list (the chain keeps the graph connected)
            loops = [e for e in g._edges if isinstance(e, M.EdgeOdometry) and isinstance(e.vertex_ids[0], int) and abs(e.vertex_ids[0] - e.vertex_ids[1]) > 1]
            if loops:
                g._edges.remove(loops[int(history_rng.integers(len(loops)))])
                ctx.count("class:edge_removed_between_runs")
        ctx.count("class:second_run_on_same_graph_after_edits")
        noise_free = False  # a vertex frozen away from its true pose: the measurements are no longer all satisfiable
    case = {"graph": {kk: v for kk, v in spec.items() if kk != "truth"}, "tol": tol}
    chi0_ref = M.ref_graph_chi2(g)
    try:
        res = M.quiet_optimize(g, tol=tol, max_iter=max_iter)
    except Exception as ex:
        ctx.check("converged-within-50", False, {"exception": type(ex).__name__, "kind": k}, {"message": str(ex)[:300]}, case)
        return None
    if far_guess:
        # landmarks that start from one common guess are metres away from where they belong: outside the calibrated neighbourhood (initial error
        # <= 0.15 / 0.08 rad), so a run that diverges or does not settle says nothing about the property; a run that does converge is judged as usual
        fin0 = res.final_chi2
        if not (res.converged and fin0 is not None and math.isfinite(fin0) and fin0 <= res.initial_chi2):
            raise Skip("shared landmark guess far from the landmarks: the run left the neighbourhood (no claim there)")
    ctx.count("class:" + k)
    ctx.count("class:loops" if n_loops else "class:tree")
    if n_lm:
        ctx.count("class:landmarks")
    ctx.count("class:noise_free" if noise_free else "class:noisy")
    feats = {"kind": k, "noise_free": noise_free}
    fin = res.final_chi2
    ok_fin = fin is not None and math.isfinite(fin)
    ctx.check("chi2-not-increased", ok_fin and fin <= res.initial_chi2 * (1 + 1e-9) + chi2_noise(g), feats, {"initial": res.initial_chi2, "final": fin}, case)
    conv_ok = bool(res.converged) and res.num_iterations is not None and res.num_iterations <= max_iter
    if not conv_ok and ok_fin:
        # the stopping test compares a *relative* chi2 decrease with tol; when chi2 at the optimum is so small that its own rounding noise
        # (2 |e|^T |Omega| delta_e, delta_e ~ 16 eps scale) exceeds tol chi2, the test is decided by noise and no iteration bound can be promised
        noise = chi2_noise(g)
        if noise > 0.1 * tol * max(fin, 1e-300):
            ctx.skip("requested tol is below the rounding noise of chi2 at the optimum (stopping test decided by noise)")
            conv_ok = None
    if conv_ok is not None:
        ctx.check("converged-within-50", conv_ok, feats, {"converged": res.converged, "num_iterations": res.num_iterations}, case)
    if not ok_fin:
        return None
    seq = [res.initial_chi2] + [r.chi2 for r in res.iteration_results if r.chi2 is not None]
    chi_prev = seq[-2] if len(seq) >= 2 else seq[-1]
    # the independent model measures the rotational error of odometry edges with the representative of the error rotation that has w >= 0:
    # the objective whose stationary point is claimed must be a function of the physical configuration, not of the stored quaternion signs
    M.CONVENTION[0] = "canonical"
    try:
        H, b, chi_f, idx, nn = M.assemble(g, "ref")
    finally:
        M.CONVENTION[0] = "real"
    free = M.free_mask(g, nn, idx)
    Hf = H[np.ix_(free, free)]
    bf = b[free]
    try:
        lam2 = float(bf @ np.linalg.solve(Hf, bf))
    except np.linalg.LinAlgError:
        raise Skip("reference Hessian singular at the returned state")
    thr = 100 * tol * chi_prev + 1e-20 * max(1.0, res.initial_chi2)
    ctx.margin("newton-decrement-small", lam2 / thr)
    ctx.check("newton-decrement-small", lam2 <= thr, feats, {"lambda2": lam2, "threshold": tol * chi_prev, "tol": tol, "chi2_prev": chi_prev, "chi2_final": fin,
                                                            "iterations": res.num_iterations}, case)
    # the reported final chi2 is the reference chi2 of the returned state
    ctx.close("final-chi2-is-reference-chi2", fin, chi_f, 1e-9 * max(chi_f, 1e-30) + 1e-18 * max(1.0, res.initial_chi2), feats, None, case)
    if noise_free:
        worst = 0.0
        for e in g._edges:
            er = M.edge_ref_error(e)
            worst = max(worst, float(np.abs(er).max()) / O.edge_scale(e))
        ctx.margin("noise-free-ground-truth-recovered", worst / 1e-9)
        ctx.check("noise-free-ground-truth-recovered", worst <= 1e-9, feats, {"worst_edge_error": worst, "final_chi2": fin}, case)
        # relative poses reproduce the ground truth
        truth = spec["truth"]
        t0, p0 = truth[0], M.fl(g._vertices[0].pose)
        wd = 0.0
        for v, t in zip(g._vertices, truth):
            kk = M.kind(v.pose)
            if kk != k:
                continue
            rel_t = R.vals(R.ominus(k, t, t0))
            rel_p = R.vals(R.ominus(k, M.fl(v.pose), p0))
            dt, dr = M.pose_distance(k, rel_t, rel_p)
            wd = max(wd, dt, dr)
        if tol <= 1e-6:
            ctx.check("noise-free-relative-poses-match-truth", wd <= 1e-6, feats, {"worst_distance": wd, "tol": tol}, case)
    return res, fin, lam2, chi_prev


def run_case(ctx, i, rng):
    k = "se2" if i % 2 == 0 else "se3"
    noise_free = (i % 4 >= 2) and (i % 8 >= 4)  # a quarter of the cases
    nmax = 40 if ctx.tier == "thorough" else 24
    n = int(min(nmax, 3 + rng.geometric(0.12)))
    n_loops = int(rng.integers(0, n // 2 + 1))
    n_lm = int(rng.integers(0, 4))
    it = float(rng.uniform(0.01, 0.15))
    ir = float(rng.uniform(0.005, 0.08))
    mt, mr = (0.0, 0.0) if noise_free else (float(rng.uniform(0.001, 0.03)), float(rng.uniform(0.0005, 0.01)))
    cond = float(10 ** rng.uniform(0, 3))
    tol = float(10 ** rng.uniform(-10, -3))
    uturn = float(rng.choice([0.0, 0.0, 0.3, 0.6]))
    if uturn:
        ctx.count("class:u_turns(relative rotation ~ pi)")
    share = bool(n_lm >= 2 and rng.random() < 0.4)
    if share:
        ctx.count("class:landmarks_share_one_initial_guess_object")
    spec = gen.trajectory_graph(rng, k, n, n_loops=n_loops, n_lm=n_lm, meas_t=mt, meas_r=mr, init_t=it, init_r=ir, cond=cond, cross=bool(rng.random() < 0.7), uturn=uturn,
                                share_landmark_guess=share, q_signs=bool(rng.random() < 0.5))
    if n_lm and not share and rng.random() < 0.25:
        # a surveyed beacon: one landmark is held fixed at its true position, and the first pose is fixed only through the default
        # fix_first_pose=True (it carries no flag itself)
        lms = [j for j, v in enumerate(spec["vertices"]) if v["kind"] != k]
        j = lms[int(rng.integers(len(lms)))]
        spec["vertices"][j]["pose"] = [float(x) for x in spec["truth"][j]]
        spec["vertices"][j]["fixed"] = True
        spec["vertices"][0]["fixed"] = False
        ctx.count("class:landmark_prefixed_first_pose_fixed_by_default_argument")
    if rng.random() < 0.2:
        # all information matrices scaled by one constant (large measurement covariances / other units): chi2 is tiny or huge in absolute terms, the
        # optimum, the iteration and the (relative) stopping rule are the same
        cinf = float(10 ** rng.uniform(-12, -6)) if rng.random() < 0.6 else float(10 ** rng.uniform(4, 9))
        for e in spec["edges"]:
            e["info"] = (np.array(e["info"]) * cinf).tolist()
        ctx.count("class:information_scaled_by_1e-12..1e-6" if cinf < 1 else "class:information_scaled_by_1e4..1e9")
    if rng.random() < 0.1:
        spec["prebind_stale"] = True  # edges arrive linked to other Vertex objects with the same ids (a ground-truth graph built first)
        ctx.count("class:edges_prebound_to_stale_vertices")
    history = bool(i % 5 == 4)
    out = convergence_check(ctx, spec, k, tol, noise_free, n_loops, n_lm, history_rng=(rng if history else None), far_guess=share)
    if out is None:
        return
    res, fin, lam2, chi_prev = out
    if res.num_iterations >= 2 and (res.initial_chi2 > 100 * fin or res.initial_chi2 > 1e-6):
        ctx.nontrivial(gen.fingerprint(spec))
    ctx.sample({"kind": k, "poses": n, "loops": n_loops, "landmarks": n_lm, "init_sigma": [it, ir], "noise_sigma": [mt, mr], "tol": tol, "iterations": res.num_iterations,
                "chi2": [res.initial_chi2, fin], "lambda2_over_tol_chi2prev": lam2 / max(tol * chi_prev, 1e-300)}, cap=3)


def _dataset_case(name, nmax, augment):
    def f(ctx):
        from .. import datasets

        if not datasets.available(name):
            ctx.skip("dataset file missing: " + name)
            return
        rng = np.random.default_rng([5, nmax or 0, int(augment)])
        spec = datasets.load_spec(name, nmax)
        if augment:
            spec = datasets.augment_with_landmarks(rng, spec, 20, cross_information=False)
        k = "se2" if name == "intel" else "se3"
        try:
            convergence_check(ctx, spec, k, 1e-4, False, 1, int(augment), max_iter=20, where="dataset:" + name)
        except Skip as sk:
            ctx.skip("dataset %s: %s" % (name, sk.reason))
        ctx.count("dataset:" + name)
        ctx.nontrivial("dataset-%s-%s-%s" % (name, nmax, augment))
    return f


DATASET_CASES = [_dataset_case("intel", None, False), _dataset_case("garage", 500, False), _dataset_case("intel", 400, True), _dataset_case("garage", 300, True)]
