"""C18 - graph construction binds edges by vertex id and rejects ill-typed edges.

Events: Graph(edges, vertices) returning or raising, for every combination of a finite configuration space, executed with the
real classes; edge.vertices afterwards; for accepted edges, whether calc_chi2_gradient_hessian() runs and is dimensionally coherent.
Oracle: an independent consistency table.
"""
import itertools
import math

import numpy as np

from .. import gen, model as M, refmodel as R

K4 = list(R.KINDS)
EST = K4 + ["ndarray"]
OFF = K4 + ["none"]
INFO = [(n, n) for n in range(1, 8)] + [(2, 3), (3, 2), (6, 3)] + [(2,), (3,), (6,), (2, 1, 2), (3, 3, 3), (6, 1, 6)]
ENDPOINTS = [c for n in (1, 2, 3) for c in itertools.product(K4, repeat=n)]
COMBOS = [("odo", ep, est, None, info, present) for ep in ENDPOINTS for est in EST for info in INFO for present in (True, False)] + \
         [("lm", ep, est, off, info, present) for ep in ENDPOINTS for est in EST for off in OFF for info in INFO for present in (True, False)]
NCOMBO = len(COMBOS)
LM_OK = {("se2", "r2"), ("se3", "r3"), ("r2", "r2"), ("r3", "r3")}

RULE = ("complete enumeration of %d configurations: edge kind (odometry, landmark) x pose class of each endpoint (1..3 endpoints, 4 classes) x estimate class (4 poses + ndarray) "
        "x offset class (4 poses + None, landmark only) x information shape (n x n for n=1..7, 3 non-square, 3 one-dimensional and 3 three-dimensional whose first and last extents match) x all ids present / one id absent (the edge fresh, or pre-bound to the named vertex objects / to stale twins from an earlier graph); case i is configuration "
        "i mod N under variant i div N (vertex list order, id class and extra unrelated vertices randomised per variant, ids held in a list / tuple / int64 array, every 5th construction with the library's loggers at DEBUG; quick: 1 variant, thorough: 12); followed by binding cases: the 8 consistent configurations and whole cluster graphs under random list orders / hostile ids, look-alike pairs (a consistent edge next to one that deviates in a single attribute), and construction through the file entry point with ids beyond 2^53. distinct = configuration "
        "x variant; non-trivial = every configuration (each is a different point of the finite space)."
        " later additions: unbound edges' is_valid(), shallow-copied edges in a second graph, edges reused for short-lived vertex lists, empty vertex lists." % NCOMBO)
NBIND = {"quick": 1200, "thorough": 40000}
PLAN = {
    "quick": {"cases": NCOMBO + NBIND["quick"], "soft_s": 100, "min_nontrivial": NCOMBO, "require": ["eval:accept-iff-consistent", "eval:bound-by-id", "eval:accepted-edge-usable", "consistent_configurations",
                                                                                  "inconsistent_configurations", "edge_prebound:named", "edge_prebound:stale", "lookalike_pairs", "file_binding_cases", "contiguous_id_range_listed_out_of_order", "empty_vertex_list_with_bound_edges", "unbound_edge_is_valid_queries", "shallow_copied_edges_in_a_second_graph"]},
    "thorough": {"cases": NCOMBO * 12 + NBIND["thorough"], "soft_s": 1200, "min_nontrivial": NCOMBO * 12, "require": ["eval:accept-iff-consistent", "eval:bound-by-id", "eval:accepted-edge-usable",
                                                                                                "consistent_configurations", "inconsistent_configurations"]},
}
EXHAUSTIVE = True
ASSUMPTIONS = ["validity is enforced with assert, so the checks run without python -O (interpreter configurations are not in the property's quantifier); self-loop edges and duplicate vertex ids are not in the space"]


def consistent(kind, ep, est, off, info, present):
    if not present:
        return False
    if len(ep) != 2:
        return False
    if kind == "odo":
        return ep[0] == ep[1] and est == ep[0] and info == (R.CD[ep[0]],) * 2
    return (ep[0], ep[1]) in LM_OK and off == ep[0] and est == ep[1] and info == (R.CD[ep[1]],) * 2


CONSISTENT = [c for c in COMBOS if consistent(*c)]


def binding_case(ctx, i, rng):
    """Whole graphs (several edges, shuffled lists, hostile ids): every edge is attached to the listed vertices whose ids it names."""
    spec, labels = gen.cluster_graph(rng, size=(2, 5))
    if rng.random() < 0.35:
        # ids forming a contiguous range (as in the usual datasets) but listed out of order; half of the time the smallest id is listed first and the
        # largest last, with the middle shuffled (e.g. [0, 2, 1, 3])
        n = len(spec["vertices"])
        base = int(rng.choice([0, 1, 100, -3, 2 ** 40]))
        perm = [int(j) for j in rng.permutation(n)]
        spec = gen.relabel(spec, {v["id"]: base + perm[j] for j, v in enumerate(spec["vertices"])})
        vs = sorted(spec["vertices"], key=lambda v: v["id"])
        if n >= 4 and rng.random() < 0.5:
            mid = vs[1:-1]
            mid = [mid[int(j)] for j in rng.permutation(len(mid))]
            vs = [vs[0]] + mid + [vs[-1]]
        else:
            vs = [vs[int(j)] for j in rng.permutation(n)]
        spec["vertices"] = vs
        spec.pop("share", None)
        ctx.count("contiguous_id_range_listed_out_of_order")
    g = M.build(spec)
    byid = {}
    for v in g._vertices:
        byid[v.id] = v
    ok = True
    bad = None
    for e in g._edges:
        if e.vertices is None or len(e.vertices) != len(e.vertex_ids) or any(ev is not byid[vid] for ev, vid in zip(e.vertices, e.vertex_ids)):
            ok, bad = False, [str(x) for x in e.vertex_ids]
            break
    ctx.check("bound-by-id", ok, {"where": "whole-graph"}, {"edge_ids": bad}, {"graph": {k: v for k, v in spec.items() if k != "truth_by_id"}})
    # an edge naming an id that is not in the list must be refused
    s2 = gen.copy_spec(spec)
    victim = s2["edges"][int(rng.integers(len(s2["edges"])))]
    victim["ids"][int(rng.integers(len(victim["ids"])))] = 10 ** 12 + 7
    raised = None
    try:
        M.build(s2)
    except Exception as ex:
        raised = type(ex).__name__
    ctx.check("accept-iff-consistent", raised is not None, {"where": "whole-graph", "why": "unknown vertex id"}, {"raised": raised}, {"graph": {k: v for k, v in s2.items() if k != "truth_by_id"}})
    # edges reused from an earlier graph: a second graph over fresh vertex objects must rebind them to *its* vertices, and must refuse them if one id is gone
    fresh = M.build_vertices(spec)
    g2 = M.Graph(list(g._edges), fresh)
    byid2 = {v.id: v for v in fresh}
    ok2 = all(e.vertices is not None and len(e.vertices) == len(e.vertex_ids) and all(ev is byid2[vid] for ev, vid in zip(e.vertices, e.vertex_ids)) for e in g2._edges)
    ctx.check("bound-by-id", ok2, {"where": "whole-graph", "edges": "reused from an earlier graph"}, None, {"graph": {k: v for k, v in spec.items() if k != "truth_by_id"}})
    used_ids = {vid for e in g._edges for vid in e.vertex_ids}
    drop = [v for v in fresh if v.id in used_ids]
    if drop:
        gone = drop[int(rng.integers(len(drop)))]
        raised = None
        try:
            M.Graph(list(g._edges), [v for v in M.build_vertices(spec) if v.id != gone.id])
        except Exception as ex:
            raised = type(ex).__name__
        ctx.check("accept-iff-consistent", raised is not None, {"where": "whole-graph", "why": "reused edge names a vertex id that is not in the new graph"}, {"raised": raised},
                  {"graph": {k: v for k, v in spec.items() if k != "truth_by_id"}, "missing_id": str(gone.id)})
    # shallow copies of bound edges (copy.copy: the copy starts out with the *same* `vertices` list object) used for another graph over other vertex
    # objects: each graph's edges end up attached to that graph's own vertices, and building the second graph leaves the first one alone
    import copy as _copy

    g_a = M.build(spec)
    va = {v.id: v for v in g_a._vertices}
    copies = [_copy.copy(e) for e in g_a._edges]
    vb_list = M.build_vertices(spec)
    g_b = M.Graph(copies, vb_list)
    vb = {v.id: v for v in vb_list}
    ok_a = all(e.vertices is not None and all(ev is va[vid] for ev, vid in zip(e.vertices, e.vertex_ids)) for e in g_a._edges)
    ok_b = all(e.vertices is not None and all(ev is vb[vid] for ev, vid in zip(e.vertices, e.vertex_ids)) for e in g_b._edges)
    ctx.check("bound-by-id", ok_a and ok_b, {"where": "whole-graph", "edges": "shallow copies used for a second graph"}, {"first_graph_still_bound_to_its_vertices": ok_a, "second_graph_bound_to_its_own": ok_b},
              {"graph": {k: v for k, v in spec.items() if k != "truth_by_id"}})
    ctx.count("shallow_copied_edges_in_a_second_graph")
    # the same edge objects scored against a series of short-lived vertex lists (candidate trajectories): every time they are attached to the list given
    # *this* time, also when an earlier list has been garbage-collected and a new one happens to live at the same address
    edges_r = list(g_a._edges)
    ok_r = True
    for _round in range(6):
        vs_r = M.build_vertices(spec)
        g_r = M.Graph(edges_r, vs_r)
        by_r = {v.id: v for v in vs_r}
        ok_r = ok_r and all(all(ev is by_r[vid] for ev, vid in zip(e.vertices, e.vertex_ids)) for e in g_r._edges)
        del g_r, vs_r, by_r
    ctx.check("bound-by-id", ok_r, {"where": "whole-graph", "edges": "reused for a series of short-lived vertex lists"}, None, {"graph": {k: v for k, v in spec.items() if k != "truth_by_id"}})
    # no vertices at all (an empty list / tuple): every id the (still bound) edges name is unknown to such a graph
    for empty in ([], ()):
        raised = None
        try:
            M.Graph(list(g._edges), empty)
        except Exception as ex:
            raised = type(ex).__name__
        ctx.check("accept-iff-consistent", raised is not None, {"where": "whole-graph", "why": "bound edges listed with an empty vertex %s" % type(empty).__name__}, {"raised": raised},
                  {"graph": {k: v for k, v in spec.items() if k != "truth_by_id"}})
    ctx.count("empty_vertex_list_with_bound_edges")
    ctx.nontrivial("bind:%d" % i)


def mkinfo(info):
    return np.eye(*info) if len(info) == 2 and info[0] == info[1] else np.ones(info)


class _Plain:
    def __enter__(self):
        return self

    def __exit__(self, *a):
        return False


def make_edge_for(cfg, ids, vr):
    kind, ep, est, off, info, present = cfg
    estimate = np.array([0.5, 0.25]) if est == "ndarray" else M.mkpose(est, gen.mild_pose(vr, est))
    information = mkinfo(info)
    if kind == "odo":
        return M.EdgeOdometry(list(ids), information, estimate)
    offset = None if off == "none" else M.mkpose(off, gen.mild_pose(vr, off, 0.5))
    return M.EdgeLandmark(list(ids), information, estimate, offset, offset_id=0)


def lookalike_case(ctx, i, rng):
    """Several edges in one list: a consistent edge followed (or preceded) by a look-alike that differs in exactly one attribute must still be refused -
    every edge is judged on its own."""
    good = CONSISTENT[(i // 3) % len(CONSISTENT)]
    kind, ep, est, off, info, present = good
    dev = int(rng.integers(3 if kind == "lm" else 2))
    if dev == 0:
        bad = (kind, ep, str(rng.choice([x for x in EST if x != est])), off, info, True)
    elif dev == 1:
        bad = (kind, ep, est, off, INFO[int(rng.integers(len(INFO)))], True)
        if bad[4] == info:
            bad = (kind, ep, est, off, (info[0] + 1, info[1] + 1), True)
    else:
        bad = (kind, ep, est, str(rng.choice([x for x in OFF if x != off])), info, True)
    verts = [M.Vertex(j + 1, M.mkpose(k, gen.mild_pose(rng, k))) for j, k in enumerate(ep)]
    ids = [v.id for v in verts]
    eg, eb = make_edge_for(good, ids, rng), make_edge_for(bad, ids, rng)
    order = [eg, eb] if rng.random() < 0.7 else [eb, eg]
    if rng.random() < 0.3:
        order = [eg, make_edge_for(good, ids, rng), eb]
    raised = None
    try:
        M.Graph(order, verts)
    except Exception as ex:
        raised = type(ex).__name__
    feats = {"where": "look-alike pair", "edge": kind, "endpoints": "-".join(ep), "deviation": ["estimate", "information", "offset"][dev], "bad_listed_first": order[0] is eb}
    ctx.check("accept-iff-consistent", raised is not None, feats, {"raised": raised, "bad": {"estimate": bad[2], "offset": bad[3], "info": list(bad[4])}}, {"configuration": feats})
    ctx.count("lookalike_pairs")
    ctx.nontrivial("look:%d" % i)


def file_binding_case(ctx, i, rng):
    """Construction through the file entry point with ids beyond 2^53 (exact integers, not floats): edges attach to exactly the named vertices, an unknown neighbour id is refused."""
    import os
    import tempfile

    base = int(rng.choice([2 ** 53, 2 ** 62, 2 ** 64, 10 ** 18 + 1])) + int(rng.integers(0, 1000))
    ids = [base, base + 1, base + 2, base + 3]
    k = str(rng.choice(["se2", "se3"]))
    kp = R.POINT_OF[k]
    vt = {"se2": "VERTEX_SE2 %d 0 0 0", "se3": "VERTEX_SE3:QUAT %d 0 0 0 0 0 0 1"}[k]
    lt = {"r2": "VERTEX_XY %d 1 1", "r3": "VERTEX_TRACKXYZ %d 1 1 1"}[kp]
    et = {"se2": "EDGE_SE2 %d %d 1 0 0 1 0 0 1 0 1", "se3": "EDGE_SE3:QUAT %d %d 1 0 0 0 0 0 1 " + " ".join(["1" if a == b else "0" for a in range(6) for b in range(a, 6)])}[k]
    lm = {"se2": "EDGE_SE2_XY %d %d 1 1 1 0 1", "se3": "EDGE_SE3_TRACKXYZ %d %d 0 1 1 1 1 0 0 1 0 1"}[k]
    lines = ["PARAMS_SE3OFFSET 0 0 0 0 0 0 0 1"] if k == "se3" else []
    lines += [vt % ids[0], vt % ids[2], lt % ids[3], et % (ids[2], ids[0]), lm % (ids[0], ids[3])]
    d = tempfile.mkdtemp(prefix="c18-", dir=os.environ.get("VF_SCRATCH"))
    try:
        pth = os.path.join(d, "ids.g2o")
        with open(pth, "w") as f:
            f.write("\n".join(lines) + "\n")
        g = M.Graph.from_g2o(pth)
        byid = {v.id: v for v in g._vertices}
        ok = sorted(byid) == sorted([ids[0], ids[2], ids[3]]) and all(list(e.vertex_ids) == exp and all(ev is byid[vid] for ev, vid in zip(e.vertices, exp))
                                                                    for e, exp in zip(g._edges, ([ids[2], ids[0]], [ids[0], ids[3]])))
        ctx.check("bound-by-id", ok, {"where": "file entry point, ids beyond 2^53"}, {"ids": [str(x) for x in ids], "edge_ids": [[str(x) for x in e.vertex_ids] for e in g._edges]}, {"file": lines})
        # the same file with an edge naming the *absent* neighbour id must be refused
        with open(pth, "w") as f:
            f.write("\n".join(lines + [et % (ids[1], ids[0])]) + "\n")
        raised = None
        try:
            M.Graph.from_g2o(pth)
        except Exception as ex:
            raised = type(ex).__name__
        ctx.check("accept-iff-consistent", raised is not None, {"where": "file entry point, ids beyond 2^53", "why": "edge names an absent neighbouring id"}, {"raised": raised}, {"file": lines})
    finally:
        import shutil

        shutil.rmtree(d, ignore_errors=True)
    ctx.count("file_binding_cases")
    ctx.nontrivial("file:%d" % i)


def run_case(ctx, i, rng):
    tier_n = NCOMBO if ctx.tier == "quick" else NCOMBO * 12
    if i >= tier_n:
        if i % 4 == 1:
            return binding_case(ctx, i, rng)
        if i % 4 == 2:
            return lookalike_case(ctx, i, rng)
        if i % 4 == 3:
            return file_binding_case(ctx, i, rng)
        cfg = CONSISTENT[(i // 4) % len(CONSISTENT)]
        variant = 1 + i
    else:
        cfg = COMBOS[i % NCOMBO]
        variant = i // NCOMBO
    kind, ep, est, off, info, present = cfg
    vr = np.random.default_rng([variant, i % NCOMBO, 18])
    used = set()
    ids = []
    for _ in ep:
        vid, _c = gen.vertex_id(vr, used, cls="small" if variant == 0 else None)
        ids.append(vid)
    verts = [M.Vertex(vid, M.mkpose(k, gen.mild_pose(vr, k))) for vid, k in zip(ids, ep)]
    named = list(verts)
    extra = [M.Vertex(gen.vertex_id(vr, used, cls="small" if variant == 0 else None)[0], M.mkpose(k, gen.mild_pose(vr, k))) for k in (K4 if variant else K4[:2])]
    listed = verts + extra
    if not present:
        # drop one named vertex from the list (its id is then unknown to the graph)
        gone = int(vr.integers(len(verts)))
        listed = [v for j, v in enumerate(verts) if j != gone] + extra
    if variant:
        order = vr.permutation(len(listed))
        listed = [listed[int(j)] for j in order]
    estimate = np.array([0.5, 0.25]) if est == "ndarray" else M.mkpose(est, gen.mild_pose(vr, est))
    information = mkinfo(info)
    # edge state that survives from before construction: the edge may arrive pre-bound (constructor argument vertices=...) to the named vertex objects,
    # or to stale twins of them from an "earlier graph"; construction must (re)bind by id against *this* graph's list, or refuse
    prebound = [None, "named", "stale"][(i // NCOMBO + i) % 3] if (variant or not present) else None
    pre = None
    if prebound == "named":
        pre = list(named)
    elif prebound == "stale":
        pre = [M.Vertex(v.id, v.pose.copy()) for v in named]
    # the ids may be held in a list, a tuple or an integer array (the loader produces lists; client code is free to pass the others)
    container = "list"
    if variant:
        container = ["list", "tuple", "ndarray"][int(vr.integers(3))]
        if container == "ndarray" and not all(type(x) is int and abs(x) < 2 ** 62 for x in ids):
            container = "tuple"
    edge_ids = list(ids) if container == "list" else tuple(ids) if container == "tuple" else np.array(ids, dtype=np.int64)
    ctx.count("ids_container:" + container)
    if kind == "odo":
        e = M.EdgeOdometry(edge_ids, information, estimate, vertices=pre)
    else:
        offset = None if off == "none" else M.mkpose(off, gen.mild_pose(vr, off, 0.5))
        e = M.EdgeLandmark(edge_ids, information, estimate, offset, offset_id=0, vertices=pre)
    debug_logging = bool((i % 5 == 0) or (variant and vr.random() < 0.3))
    if debug_logging:
        ctx.count("constructed_with_debug_logging_enabled")
    ctx.count("edge_prebound:%s" % prebound)
    if pre is None and i % 7 == 0:
        # an edge that is not attached to any vertex yet is simply "not valid": the question is answered with False, not with an exception
        try:
            unbound_ok = e.is_valid() is False or e.is_valid() == False  # noqa: E712 (numpy bools)
            why_u = None
        except Exception as ex:  # noqa: BLE001
            unbound_ok, why_u = False, type(ex).__name__
        ctx.check("accept-iff-consistent", unbound_ok, {"where": "is_valid() of an edge not yet attached to vertices"}, {"raised": why_u}, {"configuration": {"edge": kind, "endpoints": list(ep)}})
        ctx.count("unbound_edge_is_valid_queries")
    exp = consistent(*cfg)
    ctx.count("consistent_configurations" if exp else "inconsistent_configurations")
    feats = {"prebound": prebound, "ids_container": container, "debug_logging": debug_logging, "edge": kind, "endpoints": "-".join(ep), "estimate": est, "offset": off, "info": "x".join(str(n) for n in info), "ids_present": present, "expected_consistent": exp}
    case = {"configuration": {"edge": kind, "endpoints": list(ep), "estimate": est, "offset": off, "info": list(info), "ids_present": present}, "variant": variant}
    raised = None
    try:
        with (M.DebugLogging() if debug_logging else _Plain()):
            g = M.Graph([e], listed)
    except Exception as ex:
        raised = type(ex).__name__
    accepted = raised is None
    ctx.check("accept-iff-consistent", accepted == exp, feats, {"accepted": accepted, "raised": raised}, case)
    if accepted:
        bound = e.vertices is not None and len(e.vertices) == len(ids) and all(ev is nv for ev, nv in zip(e.vertices, named)) and all(ev.id == vid for ev, vid in zip(e.vertices, ids))
        ctx.check("bound-by-id", bound, feats, {"vertex_ids": [str(x) for x in ids], "bound_ids": [str(v.id) for v in (e.vertices or [])]}, case)
        usable = True
        why = None
        try:
            with np.errstate(all="ignore"):
                chi2, grad, hess = e.calc_chi2_gradient_hessian()
                err = np.atleast_1d(np.asarray(e.calc_error(), dtype=float))
                Js = e.calc_jacobians()
            m = len(err)
            usable = np.asarray(e.information).shape == (m, m) and len(Js) == len(ep) and all(np.asarray(J).shape == (m, R.CD[k]) for J, k in zip(Js, ep))
            usable = usable and len(grad) == len(ep) and all(np.asarray(gv).shape == (R.CD[k],) for (gi, gv), k in zip(grad, ep)) and math.isfinite(float(chi2))
            if not usable:
                why = "incoherent dimensions"
        except Exception as ex:
            usable, why = False, type(ex).__name__
        ctx.check("accepted-edge-usable", usable, feats, {"why": why}, case)
    ctx.nontrivial("%d:%d" % (variant, i % NCOMBO))
    if exp:
        ctx.sample(case, cap=2)
