"""C07 - chi2 and the optimization trajectory are independent of the world frame.

Events: two executions, graph G and T.G (every vertex left-composed with one rigid transform T; landmarks acted on by T;
a translation for R^n graphs): calc_chi2() of both and the vertex poses after optimize(max_iter=K, tol=0), K = 1..5.
Oracle: chi2 equal up to a propagated rounding bound; T.x_K(G) = x_K(T.G) per vertex (reference-model composition),
tolerance 200 eps cond(H) (1+|t_T|+scene) 4^K.
"""
import math

import numpy as np

from .. import gen, model as M, oracles as O, refmodel as R
from ..runner import Skip

RULE = ("cases from rng(seed, 7, 0, i): trajectory graphs of kind r2/r3/se2/se3 (3..20 poses, loops, landmarks with rotated offsets, dense SPD information, "
        "noisy measurements, perturbed initial guess or the textbook straight-line guess with exactly zero headings) and a frame change T with |t| up to 1e4 (1e6 thorough) and rotation from hostile classes (near 180 deg, "
        "w<0, angle at +-pi); K in 1..5 iterations; landmarks sometimes share one initial-guess object, sometimes lie kilometres away with guesses off by thousands; every 3rd case also moves one graph object to the new frame in place. distinct = fingerprint(spec, T, K); non-trivial = T has non-zero translation and (for SE types) non-identity rotation "
        "and the optimizer moved some vertex by more than 1e-6."
        " later additions: a third of the cases also run with the default tol / max_iter (same stopping point and, for settled runs, transformed final poses) on frames up to 1e6; the K-th iteration alone is observed in both frames (a vertex left bitwise untouched in the new frame must have had a sub-resolution update in the original one).")
REQ = ["eval:chi2-frame-invariant", "eval:trajectory-commutes-with-frame-change", "class:se2", "class:se3", "class:r2", "class:r3", "class:T:near180_or_pi", "class:K=1", "class:K=5",
       "class:landmarks", "class:straight_line_initial_guess(exact zero headings)", "class:frame_changed_in_place_on_same_objects", "class:landmarks_share_one_initial_guess_object",
       "class:large_scale_map_far_landmark_guesses", "class:default_arguments_run", "class:last_step_observed"]
PLAN = {
    "quick": {"cases": 1200, "soft_s": 80, "min_nontrivial": 300, "require": REQ},
    "thorough": {"cases": 50000, "soft_s": 1300, "min_nontrivial": 10000, "require": REQ},
}
ASSUMPTIONS = ["cases whose SE(2) angular error is within 1e-6 of +-pi are excluded (the error itself is discontinuous there); cond(H) <= 1e8 else inconclusive; cases where the measured amplification of the K-iteration map (re-run from a 1e-11 perturbed start) exceeds 1e5 are inconclusive"]


def transform_spec(spec, k, T):
    s = gen.copy_spec(spec)
    s.pop("share", None)  # the moved copy owns its poses (storage sharing is a property of how the client built G, not of the physical graph)
    kp = R.POINT_OF[k]
    for v in s["vertices"]:
        if v["kind"] == k and k not in ("r2", "r3"):
            v["pose"] = gen.normalize_pose(k, R.vals(R.oplus(k, T, v["pose"])))
        else:
            v["pose"] = R.vals(R.act(k, T, v["pose"]))
    return s


def frame_check(ctx, spec, k, T, K, tl=(), where="generated", cond_max=1e8, inplace=False, default_args=False):
    """Compare G with T.G: chi2 and the state after K iterations.  Returns (moved, c0, c1, cond, worst, tol) or None."""
    n = len(spec["vertices"])
    spec_t = transform_spec(spec, k, T)
    g, gt = M.build(spec), M.build(spec_t)
    case = {"graph": {kk: v for kk, v in spec.items() if kk != "truth"}, "T": T, "kind": k, "K": K}
    # exclusion: angular error at the cut
    bound = 0.0
    tmagT = R.tmag(k, T)
    scene = max(R.tmag(v["kind"], v["pose"]) for v in spec["vertices"])
    delta = 64 * R.EPS * (tmagT + scene + 1.0)
    for e in g._edges:
        er = M.edge_ref_error(e)
        for r in M.angle_rows(e):
            if abs(abs(er[r]) - math.pi) < 1e-6:
                raise Skip("SE(2) angular error within 1e-6 of +-pi")
        Om = np.abs(np.asarray(e.information))
        nO = float(Om.sum())
        bound += 2 * float(np.abs(er).max()) * nO * delta + nO * delta * delta
    with np.errstate(all="ignore"):
        c0, c1 = float(g.calc_chi2()), float(gt.calc_chi2())
    ctx.count("class:" + k)
    ctx.count("class:K=%d" % K)
    if any(e["type"] == "lm" for e in spec["edges"]):
        ctx.count("class:landmarks")
    feats = {"kind": k}
    ctx.close("chi2-frame-invariant", c1, c0, bound + 64 * R.EPS * abs(c0), feats, {"T": T}, case)
    H, b, chi, idx, nn = M.assemble(g, "real")
    free = M.free_mask(g, nn, idx)
    free[:R.CD[k]] = False
    dx, cond = M.reduced_step(H, b, free)
    if dx is None or cond > cond_max:
        raise Skip("cond(H) > %.0e" % cond_max)
    try:
        M.quiet_optimize(g, max_iter=K, tol=0.0)
        M.quiet_optimize(gt, max_iter=K, tol=0.0)
    except Exception as ex:
        ctx.check("trajectory-commutes-with-frame-change", False, dict(feats, exception=type(ex).__name__), {"message": str(ex)[:300]}, case)
        return
    # measured on both executions; the smaller one counts: genuine ill-conditioning of the iteration shows in both (same physical problem), whereas a defect that
    # makes only one of them sensitive to a 1e-11 change (e.g. a special-cased exact value) must not be mistaken for chaos
    amp = min(M.iteration_amplification(spec, g, {"max_iter": K, "tol": 0.0}), M.iteration_amplification(spec_t, gt, {"max_iter": K, "tol": 0.0}))
    if not (amp < 1e5):
        raise Skip("the K-iteration map amplifies a 1e-11 perturbation by more than 1e5 here (expanding / chaotic regime)")
    tol = 200 * R.EPS * cond * (1.0 + tmagT + scene) * max(4.0 ** K, 10.0 * amp)
    worst = 0.0
    moved = 0.0
    for v, vt, v0 in zip(g._vertices, gt._vertices, spec["vertices"]):
        kk = M.kind(v.pose)
        p = M.fl(v.pose)
        if kk == k and k not in ("r2", "r3"):
            exp = R.vals(R.oplus(k, T, p))
        else:
            exp = R.vals(R.act(k, T, p))
        got = M.fl(vt.pose)
        if not all(math.isfinite(x) for x in got + exp):
            worst = math.inf
            continue
        dt, dr = M.pose_distance(kk, exp, got)
        worst = max(worst, dt, dr)
        d0 = M.pose_distance(kk, p, M.fl(M.mkpose(kk, v0["pose"])))
        moved = max(moved, d0[0], d0[1])
    ctx.margin("trajectory-commutes-with-frame-change", worst / tol)
    ctx.check("trajectory-commutes-with-frame-change", worst <= tol, dict(feats, K=K), {"worst": worst, "tol": tol, "cond": cond, "T": T}, case)
    if K >= 2 and worst <= tol and amp < 30:
        # last-step observation (seeded change C07-22: updates dropped when "numerically zero" relative to the absolute coordinates): a free vertex
        # whose pose the K-th iteration leaves bitwise untouched in the new frame had an update below the resolution of its coordinates there, so the
        # same vertex's K-th update in the original frame is bounded by that resolution (amplified by the solve) plus the measured state mismatch
        try:
            ga, gb = M.build(spec), M.build(spec_t)
            M.quiet_optimize(ga, max_iter=K - 1, tol=0.0)
            M.quiet_optimize(gb, max_iter=K - 1, tol=0.0)
            pa, pb = [M.fl(v.pose) for v in ga._vertices], [M.fl(v.pose) for v in gb._vertices]
            wprev = 0.0
            for v, a_, b_ in zip(ga._vertices, pa, pb):
                kk = M.kind(v.pose)
                exp = R.vals(R.oplus(k, T, a_)) if (kk == k and k not in ("r2", "r3")) else R.vals(R.act(k, T, a_))
                if not all(math.isfinite(x) for x in exp + b_):
                    wprev = math.inf
                    break
                wprev = max(wprev, *M.pose_distance(kk, exp, b_))
            M.quiet_optimize(ga, max_iter=1, tol=0.0)
            M.quiet_optimize(gb, max_iter=1, tol=0.0)
            if math.isfinite(wprev):
                lbound = 64 * R.EPS * (1.0 + tmagT + scene) * (1.0 + cond) + 10.0 * (1.0 + amp) * wprev
                for j, (va, vb) in enumerate(zip(ga._vertices, gb._vertices)):
                    if j == 0 or vb.fixed:
                        continue
                    qa, qb = M.fl(va.pose), M.fl(vb.pose)
                    if qb == pb[j] and all(math.isfinite(x) for x in qa + pa[j]):
                        so = max(M.pose_distance(M.kind(va.pose), pa[j], qa))
                        ctx.check("trajectory-commutes-with-frame-change", so <= lbound, dict(feats, K=K, variant="vertex left untouched by the last iteration in the new frame"),
                                  {"update_in_original_frame": so, "bound": lbound, "vertex_index": j, "T": T}, case)
                ctx.count("class:last_step_observed")
        except Exception:  # noqa: BLE001 - the main comparison above already judged exceptions of these calls
            ctx.count("last_step_observation_skipped:exception")
    if inplace:
        # history: the same graph object evaluated in the original frame, then moved to the new frame by writing into the pose arrays in place
        gi = M.build(spec)
        with np.errstate(all="ignore"):
            gi.calc_chi2()
            for e in gi._edges:
                e.calc_error()
                e.calc_jacobians()
        for v, vt0 in zip(gi._vertices, spec_t["vertices"]):
            v.pose[:] = M.fl(M.mkpose(vt0["kind"], vt0["pose"]))
        with np.errstate(all="ignore"):
            ci = float(gi.calc_chi2())
        ctx.close("chi2-frame-invariant", ci, c0, bound + 64 * R.EPS * abs(c0), dict(feats, frame_change="in place on the same objects"), {"T": T}, case)
        try:
            M.quiet_optimize(gi, max_iter=K, tol=0.0)
            wi = 0.0
            for v, vt in zip(gi._vertices, gt._vertices):
                kk = M.kind(v.pose)
                p, q = M.fl(v.pose), M.fl(vt.pose)
                if not all(math.isfinite(x) for x in p + q):
                    wi = math.inf
                    continue
                dt, dr = M.pose_distance(kk, p, q)
                wi = max(wi, dt, dr)
            ctx.check("trajectory-commutes-with-frame-change", wi <= tol, dict(feats, K=K, frame_change="in place on the same objects"), {"worst": wi, "tol": tol, "T": T}, case)
        except Exception as ex:
            ctx.check("trajectory-commutes-with-frame-change", False, dict(feats, exception=type(ex).__name__, frame_change="in place on the same objects"), {"message": str(ex)[:300]}, case)
        ctx.count("class:frame_changed_in_place_on_same_objects")
    if default_args and amp < 30 and worst <= tol:
        # the same comparison with the caller's defaults (tol = 1e-4, max_iter = 20): the stopping rule sees only chi2, which is frame invariant, so both
        # runs stop after the same number of iterations with the same verdict - unless some relative decrease sits close to tol (then rounding decides)
        try:
            ga, gta = M.build(spec), M.build(spec_t)
            ra, rt = M.quiet_optimize(ga), M.quiet_optimize(gta)
            rels = [abs(x.rel_diff) for x in list(ra.iteration_results) + list(rt.iteration_results) if getattr(x, "rel_diff", None) is not None]
            # also a close call: a relative change below 1e-9 (chi2 moving by a few ulps: whether it "increased" is decided by rounding)
            close_call = any((not math.isfinite(x)) or (0.25e-4 < x < 4e-4) or x < 1e-9 for x in rels)
            # ... or a chi2 that has reached its rounding floor in either frame (coordinates of size |T| + scene carry an absolute rounding of
            # eps (|T| + scene) into every error component): below that floor the sequence is noise and so is the stopping point
            floor = sum(float(np.abs(np.asarray(e.information, dtype=float)).sum()) for e in ga._edges) * (64 * R.EPS * (tmagT + scene + 1.0)) ** 2
            chis = [float(x.chi2) for x in list(ra.iteration_results) + list(rt.iteration_results) if getattr(x, "chi2", None) is not None]
            close_call = close_call or any((not math.isfinite(c)) or c <= 100.0 * floor for c in chis)
            if close_call:
                ctx.count("default_arguments_run_not_compared:relative_decrease_close_to_tol")
            else:
                ctx.check("trajectory-commutes-with-frame-change", ra.num_iterations == rt.num_iterations and bool(ra.converged) == bool(rt.converged),
                          dict(feats, variant="default tol / max_iter: same stopping point"), {"num_iterations": [ra.num_iterations, rt.num_iterations], "converged": [ra.converged, rt.converged], "T": T}, case)
                # ... and, when both stopped at the same point, with poses that are each other's transform (two runs to convergence agree to the
                # convergence accuracy of the rule, 1e-4 relative in chi2, not to rounding: loose tolerance, tight enough for a lost or doubled frame change)
                wd = 0.0
                for v, vt in zip(ga._vertices, gta._vertices):
                    kk = M.kind(v.pose)
                    p = M.fl(v.pose)
                    exp = R.vals(R.oplus(k, T, p)) if (kk == k and k not in ("r2", "r3")) else R.vals(R.act(k, T, p))
                    got = M.fl(vt.pose)
                    if not all(math.isfinite(x) for x in got + exp):
                        wd = math.inf
                        continue
                    dt, dr = M.pose_distance(kk, exp, got)
                    wd = max(wd, dt / (1.0 + tmagT + scene), dr)
                # (only for runs that settled: a run that is still wandering after 20 iterations amplifies rounding differences without bound)
                settled = bool(ra.converged) and bool(rt.converged) and ra.final_chi2 is not None and rt.final_chi2 is not None and \
                    abs(float(ra.final_chi2) - float(rt.final_chi2)) <= 1e-6 * max(abs(float(ra.final_chi2)), 1e-300) + 100.0 * floor
                if ra.num_iterations == rt.num_iterations and settled:
                    ctx.check("trajectory-commutes-with-frame-change", wd <= 1e-3, dict(feats, variant="default tol / max_iter: final poses"), {"worst_relative": wd, "T": T}, case)
                ctx.count("class:default_arguments_run")
        except Exception as ex:
            ctx.check("trajectory-commutes-with-frame-change", False, dict(feats, exception=type(ex).__name__, variant="default tol / max_iter"), {"message": str(ex)[:300]}, case)
    return moved, c0, c1, cond, worst, tol


def run_case(ctx, i, rng):
    k = ["se2", "se3", "r2", "r3"][i % 4]
    K = 1 + (i // 4) % 5
    n = int(rng.integers(3, 21 if ctx.tier == "thorough" else 13))
    straight = bool(rng.random() < 0.25)
    if straight:
        n = min(n, 6)
        ctx.count("class:straight_line_initial_guess(exact zero headings)")
    n_lm = int(rng.integers(0, 4))
    share = bool(n_lm >= 2 and rng.random() < 0.4)
    large = bool(n_lm >= 1 and rng.random() < 0.2)
    if share:
        ctx.count("class:landmarks_share_one_initial_guess_object")
    if large:
        ctx.count("class:large_scale_map_far_landmark_guesses")
    spec = gen.trajectory_graph(rng, k, n, n_loops=int(rng.integers(0, n // 2 + 1)), n_lm=n_lm, share_landmark_guess=share, scale=(3e3 if large else 5.0),
                                lm_init=(4e3 if large else None), meas_t=0.03, meas_r=0.01,
                                init_t=float(rng.uniform(0.01, 0.15)), init_r=float(rng.uniform(0.005, 0.08)), cond=float(10 ** rng.uniform(0, 3)), cross=True,
                                straight_init=straight, step=(0.3 if straight else 1.0))
    maxexp = 4.0 if (ctx.tier == "quick" and (i // 4) % 3 != 1) else 6.0  # the default-argument cases also use the widest frames in the quick tier
    T, tl = gen.pose(rng, k, maxexp)
    T = gen.normalize_pose(k, T)
    if k == "se2":
        T[2] = R.val(R.wrap(T[2]))
    for lab in tl:
        if lab in ("q:near180", "q:wzero", "q:axis180", "a:nearpi_in", "a:nearpi_out", "a:exact"):
            ctx.count("class:T:near180_or_pi")
    res = frame_check(ctx, spec, k, T, K, inplace=bool(i % 3 == 0), cond_max=(1e12 if large else 1e8), default_args=bool((i // 4) % 3 == 1))
    if res is None:
        return
    moved, c0, c1, cond, worst, tol = res
    tmagT = R.tmag(k, T)
    rot_ok = True
    if k == "se2":
        rot_ok = abs(T[2]) > 1e-9
    if k == "se3":
        rot_ok = abs(abs(T[6]) - 1) > 1e-12
    if tmagT > 0 and rot_ok and moved > 1e-6:
        ctx.nontrivial(gen.fingerprint({"spec": spec, "T": T, "K": K}))
    ctx.sample({"kind": k, "K": K, "T": T, "poses": n, "edges": len(spec["edges"]), "chi2": [c0, c1], "cond": cond, "worst_pose_difference": worst, "tolerance": tol}, cap=3)


def _dataset_case(name, nmax):
    def f(ctx):
        from .. import datasets

        if not datasets.available(name):
            ctx.skip("dataset file missing: " + name)
            return
        rng = np.random.default_rng([7, nmax])
        k = "se2" if name == "intel" else "se3"
        spec = datasets.augment_with_landmarks(rng, datasets.load_spec(name, nmax), 10)
        for K in (1, 2):
            T = gen.normalize_pose(k, gen.pose(rng, k, 4.0)[0])
            if k == "se2":
                T[2] = R.val(R.wrap(T[2]))
            try:
                frame_check(ctx, spec, k, T, K, where="dataset:" + name, cond_max=1e13)
            except Skip as sk:
                ctx.skip("dataset %s: %s" % (name, sk.reason))
        ctx.count("dataset:" + name)
        ctx.nontrivial("dataset-%s-%d" % (name, nmax))
    return f


DATASET_CASES = [_dataset_case("intel", 150), _dataset_case("garage", 120), _dataset_case("intel", 40), _dataset_case("garage", 40)]


def pinned_big_chi2(ctx):
    """chi2 frame invariance on one large pure SE(2) odometry graph (thousands of edges; the frame rotation pushes many headings across +-pi)."""
    rng = np.random.default_rng(707)
    nv, ne = 1200, 4600
    vertices = [{"id": j, "kind": "se2", "pose": [float(x) for x in rng.normal(size=2) * 20] + [float(rng.uniform(-3.1, 3.1))], "fixed": j == 0} for j in range(nv)]
    edges = []
    for _ in range(ne):
        a, b = rng.choice(nv, 2, replace=False)
        z = R.vals(R.ominus("se2", vertices[int(b)]["pose"], vertices[int(a)]["pose"]))
        z = [z[0] + rng.normal() * 0.1, z[1] + rng.normal() * 0.1, R.val(R.wrap(z[2] + rng.normal() * 0.05))]
        edges.append({"type": "odo", "ids": [int(a), int(b)], "info": gen.spd(rng, 3, 20.0, True).tolist(), "est": z, "est_kind": "se2"})
    spec = {"vertices": vertices, "edges": edges}
    for ang in (2.0, -3.0):
        T = [float(rng.normal() * 50), float(rng.normal() * 50), ang]
        g, gt = M.build(spec), M.build(transform_spec(spec, "se2", T))
        with np.errstate(all="ignore"):
            c0, c1 = float(g.calc_chi2()), float(gt.calc_chi2())
        ctx.close("chi2-frame-invariant", c1, c0, 1e-9 * abs(c0), {"kind": "se2", "where": "large pure odometry graph"}, {"T": T, "n_edges": ne}, {"n_edges": ne, "T": T})
    ctx.count("class:graph_with_4000+_edges")
    ctx.nontrivial("pinned-big-chi2")


PINNED = [pinned_big_chi2]
