"""C04 - linear (R^2/R^3) graphs are solved to the global weighted-least-squares optimum.

Events: vertex positions and OptimizationResult after Graph.optimize().
Oracle: closed-form minimiser of the reduced normal equations built by the reference model (the residual is
linear, so x* = x0 - H^-1 b exactly), chi2 at x* from the reference model.
"""
import math

import numpy as np

from .. import gen, model as M, oracles as O, refmodel as R
from ..runner import Skip

RULE = ("cases from rng(seed, 4, 0, i): connected-per-cluster graphs of R^2 and/or R^3 points (2..30 vertices: trees, loops, parallel edges, "
        "point-to-point landmark edges with offsets), >=1 fixed vertex per component, initial guess displaced by 10^U(-2,6), SPD information with "
        "cond up to 1e6, measurement noise 10^U(-3,1); optimize() with default arguments or random tol in 10^U(-10,-2), max_iter in 1..20; every 3rd case then edits the problem in place (information replaced / scaled in place, measurement, a vertex, a fixed flag) and re-optimizes the same graph object. "
        "distinct = spec fingerprint; non-trivial = some free vertex is displaced by more than 1e-3 from the optimum initially and cond(H)<=1e10."
        " later additions: sparse information patterns, a second live graph over the same objects, the first vertex fixed only through the argument, initial guesses 1e6..3e8 off.")
REQ = ["eval:optimum-reached", "eval:final-chi2-at-optimum", "class:landmark_edges", "class:parallel_edges", "class:far_initial_guess", "class:mixed_dimensions",
       "class:illconditioned_information", "class:shared_pose_storage", "class:reoptimised_after_edits", "eval:optimum-reached-after-edits", "class:information_scales:per_edge", "class:information_scales:all_tiny", "class:edges_prebound_to_stale_vertices", "class:information_sparse:zero_rows_and_blocks", "class:information_sparse:offdiagonals_cancel_in_sum", "class:second_live_graph_over_the_same_objects", "class:first_vertex_fixed_only_by_the_argument_while_others_carry_flags"]
PLAN = {
    "quick": {"cases": 1600, "soft_s": 60, "min_nontrivial": 400, "require": REQ},
    "thorough": {"cases": 80000, "soft_s": 1100, "min_nontrivial": 10000, "require": REQ},
}
ASSUMPTIONS = ["cond(H_reduced) <= 1e10 (else inconclusive)"]


def run_case(ctx, i, rng):
    kinds = [["r2"], ["r3"], ["r2", "r3"], ["r3", "r3"], ["r2", "r2", "r2"]][i % 5]
    nmax = int(rng.choice([4, 8, 15, 30 // len(kinds)]))
    noise = float(10 ** rng.uniform(-3, 1))
    far = float(10 ** rng.uniform(-2, 6)) if rng.random() < 0.9 else float(10 ** rng.uniform(6, 8.5))  # now and then a guess millions of units off (map origin vs UTM)
    cond = float(10 ** rng.uniform(0, 6))
    spec, labels = gen.cluster_graph(rng, kinds=kinds, size=(2, max(2, nmax)), noise_t=noise, init_t=far, cond=cond, custom=False, scale=float(10 ** rng.uniform(0, 3)), alias=bool(rng.random() < 0.25), wide_info=bool(rng.random() < 0.3))
    if far > 1e3:
        labels.add("far_initial_guess")
    if rng.random() < 0.12:
        # partial information: unconstrained axes (zero rows), independent axes, small dense blocks, off-diagonals that cancel in sum
        for lab in gen.sparsify_information(rng, spec["edges"]):
            labels.add("information_sparse:" + lab)
    if cond > 1e3:
        labels.add("illconditioned_information")
    default_args = rng.random() < 0.4
    kw = {} if default_args else {"tol": float(10 ** rng.uniform(-10, -2)), "max_iter": int(rng.integers(1, 21))}
    ffp = bool(rng.random() < 0.5)
    kw["fix_first_pose"] = ffp
    g = M.build(spec)
    if not ctx.check("edges-linked-to-the-listed-vertices", M.edges_linked_to_graph(g), {"prebound": bool(spec.get("prebind_stale"))}, None, {"graph": {k: v for k, v in spec.items() if k != "truth_by_id"}}):
        return
    if rng.random() < 0.15 and not spec.get("prebind_stale"):
        # a second live graph over the same vertex and edge objects, listed in another order (a viewer, a sub-solver): constructing it must not
        # disturb the first graph
        pv, pe = rng.permutation(len(g._vertices)), rng.permutation(len(g._edges))
        first_v = g._vertices[0]
        pv = [int(j) for j in pv]
        g_second = M.Graph([g._edges[int(j)] for j in pe], [g._vertices[j] for j in pv])
        labels.add("second_live_graph_over_the_same_objects")
        case_extra = {"second_graph_vertex_order": pv}
    # with fix_first_pose=True the first listed vertex is fixed by the call itself (it carries no flag beforehand unless the generator gave it one)
    fixed_ids = {id(v) for v in g._vertices if v.fixed}
    if ffp:
        fixed_ids.add(id(g._vertices[0]))
        if not g._vertices[0].fixed and len(fixed_ids) > 1:
            ctx.count("class:first_vertex_fixed_only_by_the_argument_while_others_carry_flags")
    x0 = M.snapshot_poses(g)
    H, b, chi0, idx, n = M.assemble(g, "ref")
    free = M.free_mask(g, n, idx, fixed_ids)
    dx, c = M.reduced_step(H, b, free)
    if dx is None or c > (1e13 if any(l.startswith("information_scales") for l in labels) else 1e10):
        raise Skip("cond(H_reduced) too large for a meaningful comparison")
    xstar = []
    for v, p in zip(g._vertices, x0):
        i0 = idx[id(v)]
        xstar.append([p[j] + dx[i0 + j] for j in range(len(p))])
    # reference chi2 at x*
    keep = [v.pose for v in g._vertices]
    for v, p in zip(g._vertices, xstar):
        v.pose = M.mkpose(M.kind(v.pose), p)
    chi_star = M.ref_graph_chi2(g)
    for v, p in zip(g._vertices, keep):
        v.pose = p
    case = {"graph": {k: v for k, v in spec.items() if k != "truth_by_id"}, "optimize_kwargs": kw}
    try:
        res = M.quiet_optimize(g, **kw)
    except Exception as ex:
        ctx.check("optimum-reached", False, {"exception": type(ex).__name__}, {"message": str(ex)[:300]}, case)
        return
    x = M.snapshot_poses(g)
    scale = max(1.0, max(abs(t) for p in x0 for t in p), float(np.abs(dx).max()))
    tol = 200 * R.EPS * max(c, 1.0) * scale
    for lab in labels:
        ctx.count("class:" + lab)
    worst = 0.0
    for j, (p, q) in enumerate(zip(x, xstar)):
        d = max(abs(a - bb) for a, bb in zip(p, q)) if all(math.isfinite(a) for a in p) else math.inf
        worst = max(worst, d)
    ctx.margin("optimum-reached", worst / tol)
    ctx.check("optimum-reached", worst <= tol, {"default_args": default_args, "fix_first_pose": ffp},
              {"worst_abs_diff": worst, "tol": tol, "cond": c, "max_iter": kw.get("max_iter", 20), "labels": sorted(labels)}, case)
    # reported final chi2 = chi2 at the optimum (quadratic slack for the position tolerance)
    Hn = float(np.abs(H).sum())
    bound = 1e-9 * max(chi_star, 1e-300) + Hn * tol * tol * n + 64 * R.EPS * max(chi0, chi_star)
    if res.final_chi2 is None:
        ctx.check("final-chi2-at-optimum", False, {"why": "final_chi2 is None"}, None, case)
    else:
        ctx.close("final-chi2-at-optimum", float(res.final_chi2), chi_star, bound, {"default_args": default_args}, {"chi2_initial": chi0}, case)
    # (no claim on the iteration count: at the optimum chi2 moves by rounding only, and the documented rule keeps iterating while
    #  chi2 "increases" by one ulp - observed on the unchanged tree, see DESIGN.md "False alarms corrected")
    ctx.check("report-fields-present", res.num_iterations is not None and res.initial_chi2 is not None and 1 <= res.num_iterations <= kw.get("max_iter", 20),
              {"default_args": default_args}, {"num_iterations": res.num_iterations}, case)
    if i % 3 == 0 and worst <= tol:
        # history: edit the problem on the same objects (information replaced / scaled in place, measurement moved, a vertex displaced, a flag switched)
        # and optimize again: the result must be the optimum of the *current* problem (nothing cached from the first run may survive)
        edits = []
        for e in g._edges:
            u = rng.random()
            if u < 0.25:
                e.information = gen.spd(rng, np.asarray(e.information).shape[0], 50.0) * float(10 ** rng.uniform(-2, 2))
                edits.append("information replaced")
            elif u < 0.5:
                e.information *= float(10 ** rng.uniform(-2, 2))
                edits.append("information scaled in place")
            elif u < 0.65:
                e.estimate = M.mkpose(M.kind(e.estimate), [x + rng.normal() for x in M.fl(e.estimate)])
                edits.append("estimate replaced")
        free_v = [v for v in g._vertices if not v.fixed]
        if free_v:
            v = free_v[int(rng.integers(len(free_v)))]
            v.pose = M.mkpose(M.kind(v.pose), [x + rng.normal() * 10 for x in M.fl(v.pose)])
            if len(free_v) > 1 and rng.random() < 0.5:
                free_v[0].fixed = True
                edits.append("vertex newly fixed")
        H2, b2, chi02, idx2, n2 = M.assemble(g, "ref")
        free2 = M.free_mask(g, n2, idx2)
        dx2, c2 = M.reduced_step(H2, b2, free2)
        if dx2 is not None and c2 <= 1e10:
            x02 = M.snapshot_poses(g)
            xstar2 = [[p[j] + dx2[idx2[id(v)] + j] for j in range(len(p))] for v, p in zip(g._vertices, x02)]
            try:
                M.quiet_optimize(g, max_iter=int(rng.integers(1, 6)), tol=1e-9, fix_first_pose=False)
                x2 = M.snapshot_poses(g)
                scale2 = max(1.0, max(abs(t) for p in x02 for t in p), float(np.abs(dx2).max()))
                tol2 = 200 * R.EPS * max(c2, 1.0) * scale2
                worst2 = max((max(abs(a - bb) for a, bb in zip(p, q)) if all(math.isfinite(a) for a in p) else math.inf) for p, q in zip(x2, xstar2))
                ctx.margin("optimum-reached-after-edits", worst2 / tol2)
                ctx.check("optimum-reached-after-edits", worst2 <= tol2, {"history": "re-optimisation after edits"}, {"worst_abs_diff": worst2, "tol": tol2, "cond": c2, "edits": sorted(set(edits))},
                          dict(case, edits=edits))
                ctx.count("class:reoptimised_after_edits")
            except Exception as ex:
                ctx.check("optimum-reached-after-edits", False, {"exception": type(ex).__name__}, {"message": str(ex)[:300]}, case)
    if float(np.abs(dx).max()) > 1e-3:
        ctx.nontrivial(gen.fingerprint(spec))
    ctx.sample({"kinds": kinds, "n_vertices": len(spec["vertices"]), "n_edges": len(spec["edges"]), "cond": c, "initial_displacement": float(np.abs(dx).max()),
                "chi2_initial": chi0, "chi2_optimum": chi_star, "kwargs": kw, "labels": sorted(labels)}, cap=2)
