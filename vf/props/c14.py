"""C14 - .g2o import is faithful to the file.

Events: generated file text -> objects returned by Graph.from_g2o and by each graphslam.load entry point; log records of the
graphslam.graph logger.
Oracle: an independent tokenizer's expectation for every line of the file (one object per supported line, in file order per
category, carrying exactly float(token) values; triangle expanded; offsets resolved through the parameter id defined earlier);
one warning per unsupported non-blank line quoting it; junk removal leaves all objects unchanged; all entry points agree;
registered custom types claim exactly their own lines.
"""
import logging
import math
import os
import shutil
import tempfile

import numpy as np

from .. import custom, gen, model as M, refmodel as R

RULE = ("cases from rng(seed, 14, 0, i): a file of 5..60 lines mixing all 10 supported line types (+2 registered custom types) in a legal order, ids from hostile classes, "
        "numbers rendered in every format float() accepts (repr, %.17e, +/-, leading zeros, '.5', '5.', underscores, E+0), 1-5 spaces between fields, trailing spaces, "
        "LF/CRLF, interleaved junk (comments, FIX lines, wrong-case tags, tag+tab, leading space, unknown tags, lines containing VT/FF/FS/GS/RS/NEL/LS/PS characters followed by a valid-looking record) and blank lines; parameter ids redefined / several ids. "
        "distinct = fingerprint of the file text; non-trivial = >= 3 supported line types and >= 1 junk line."
        " later additions: dataset-style quaternions (5-7 decimals), odd file names, several registered types accepting one tag, independence of loaded objects incl. measurements and offsets, fixed flags in the cross-entry-point signature.")
REQ = ["eval:objects-match-tokenizer", "eval:warnings-match-junk-lines", "eval:junk-removal-changes-nothing", "eval:entry-points-agree", "eval:custom-types-claim-own-lines", "eval:reload-after-another-file-identical",
       "line:VERTEX_SE2", "line:VERTEX_SE3:QUAT", "line:VERTEX_XY", "line:VERTEX_TRACKXYZ", "line:EDGE_SE2", "line:EDGE_SE3:QUAT", "line:EDGE_SE2_XY", "line:EDGE_SE3_TRACKXYZ",
       "line:PARAMS_SE2OFFSET", "line:PARAMS_SE3OFFSET", "class:crlf", "class:several_param_ids", "class:junk:tag_tab", "class:junk:leading_space", "class:junk:wrong_case", "class:junk:control_chars", "class:file_name_with_percent_sign", "class:quaternion_written_with_5-7_decimals", "eval:loaded-objects-independent", "class:information_all_zero", "class:duplicate_edge_line"]
PLAN = {
    "quick": {"cases": 1500, "soft_s": 70, "min_nontrivial": 400, "require": REQ},
    "thorough": {"cases": 80000, "soft_s": 1300, "min_nontrivial": 20000, "require": REQ},
}
ASSUMPTIONS = ["well-formed files only: every supported line carries exactly its field count, edges name existing vertices of matching type, parameters are defined before use, inf/nan excluded"]


def fmt_float(rng, v, safe=False):
    c = rng.choice([0, 1, 2, 4, 10]) if safe else rng.integers(0, 11)
    if c == 0:
        s = repr(float(v))
    elif c == 1:
        s = "%.17e" % v
    elif c == 2:
        s = "%+.12E" % v
    elif c == 3:
        s = "%.6f" % v
    elif c == 4:
        s = ("+" if math.copysign(1.0, v) > 0 else "") + repr(float(v))
    elif c == 5:
        iv = int(rng.integers(-5000, 5000))
        s = "%d" % iv
    elif c == 6:
        iv = int(rng.integers(0, 9))
        s = rng.choice([".%d", "%d.", "00%d.50", "-.%d", "%de0", "%dE+0", "%d_0.2_5", "-%d.5e-1"]) % iv
    elif c == 7:
        s = "%.3g" % v
    elif c == 8:
        s = "%.20f" % v if abs(v) < 1e6 else repr(float(v))
    elif c == 9:
        s = "%r" % float(np.float32(v))
    else:
        s = "%.15g" % v
    float(s)  # must be acceptable to float()
    return s


def fmt_int(rng, v):
    c = rng.integers(0, 5)
    if c == 0 and v >= 0:
        return "+%d" % v
    if c == 1 and 0 <= v < 1000:
        return "00%d" % v
    return "%d" % v


def render(rng, tag, fields, crlf):
    parts = [tag]
    for kind, v in fields:
        if kind == "z":
            parts.append(str(rng.choice(["0", "0.0", "-0.0", "0e0", "+0", "0.", ".0", "0E+5"])))
            continue
        if isinstance(kind, str) and kind.startswith("d"):
            parts.append(("%." + kind[1:] + "f") % v)  # dataset style: a fixed number of decimals
            continue
        parts.append(fmt_int(rng, v) if kind == "i" else fmt_float(rng, v, safe=(kind == "q")))
    seps = [" "] + [" " * int(rng.choice([1, 1, 1, 2, 3, 5])) for _ in range(len(parts) - 2)]
    s = parts[0]
    for sep, p in zip(seps, parts[1:]):
        s += sep + p
    if rng.random() < 0.2:
        s += " " * int(rng.integers(1, 4))
    return s + ("\r\n" if crlf else "\n")


JUNK = {
    "comment": lambda rng: "# a comment %d" % rng.integers(1000),
    "fix": lambda rng: "FIX %d" % rng.integers(100),
    "wrong_case": lambda rng: "vertex_se2 1 2 3 4",
    "tag_tab": lambda rng: "VERTEX_SE2\t7 1 2 3",
    "leading_space": lambda rng: " VERTEX_XY 7 1 2",
    "unknown": lambda rng: "EDGE_SE3_PRIOR 1 0 0 0 0 0 0 1",
    "prefix_of_tag": lambda rng: "VERTEX_SE2X 1 2 3 4",
    "text": lambda rng: "hello world",
    "tag_only": lambda rng: "EDGE_SE2",
    # characters that some line-splitting routines (str.splitlines) treat as line boundaries but a text file does not: the line stays one junk line
    "control_chars": lambda rng: "# note" + str(rng.choice(CONTROL)) + "VERTEX_XY %d 1 1" % (9000 + int(rng.integers(100))),
    "control_chars_mid_text": lambda rng: "hello" + str(rng.choice(CONTROL)) + "EDGE_SE2 1 2 0 0 0 1 0 0 1 0 1",
}
CONTROL = ["\x0b", "\x0c", "\x1c", "\x1d", "\x1e"]
try:
    import locale as _locale

    "\x85\u2028\u2029".encode(_locale.getpreferredencoding(False))
    if _locale.getpreferredencoding(False).lower().replace("-", "") == "utf8":
        CONTROL += ["\x85", "\u2028", "\u2029"]
except Exception:  # noqa: BLE001
    pass


def gen_file(rng, ctx, with_custom):
    crlf = bool(rng.random() < 0.3)
    if crlf:
        ctx.count("class:crlf")
    used = set()
    V = {"se2": [], "se3": [], "r2": [], "r3": []}
    recs = []  # (category, tag, fields)
    fam = str(rng.choice(["2d", "3d", "both"]))
    kinds = {"2d": ["se2", "r2"], "3d": ["se3", "r3"], "both": ["se2", "r2", "se3", "r3"]}[fam]
    tagv = {"r2": "VERTEX_XY", "r3": "VERTEX_TRACKXYZ", "se2": "VERTEX_SE2", "se3": "VERTEX_SE3:QUAT"}

    def num(n):
        return [("f", float(x)) for x in rng.normal(size=n) * 10.0 ** rng.uniform(-2, 3)]

    def ang():
        return [("f", gen.angle(rng, big=1e4)[0])]

    def tri(n):
        """upper triangle of an information matrix: random, all zeros in assorted spellings, or the identity"""
        m = n * (n + 1) // 2
        u = rng.random()
        if u < 0.1:
            ctx.count("class:information_all_zero")
            return [("z", 0.0)] * m
        if u < 0.2:
            out, t = [], 0
            for a in range(n):
                for b in range(a, n):
                    out.append(("f", 1.0 if a == b else 0.0))
            return out
        return num(m)

    def quat():
        q = gen.unit_quat(rng)[0]
        if rng.random() < 0.3:
            # as the public datasets write them: a unit quaternion rounded to 5-7 decimals (unit only to ~1e-6)
            nd = int(rng.choice([5, 6, 6, 7]))
            ctx.count("class:quaternion_written_with_5-7_decimals")
            return [("d%d" % nd, x) for x in q]
        return [("f", x) for x in q]

    for k in kinds:
        for _ in range(int(rng.integers(2, 5))):
            vid, _c = gen.vertex_id(rng, used)
            V[k].append(vid)
            body = num(2) + ang() if k == "se2" else num(3) + quat() if k == "se3" else num(R.CD[k])
            recs.append(("v", tagv[k], [("i", vid)] + body))
    edges = []
    params = []
    if "se2" in kinds:
        for _ in range(int(rng.integers(0, 3))):
            params.append(("p", "PARAMS_SE2OFFSET", [("i", int(rng.integers(0, 5)))] + num(2) + ang()))
        for _ in range(int(rng.integers(1, 5))):
            a, b = [V["se2"][int(x)] for x in rng.choice(len(V["se2"]), 2, replace=False)]
            edges.append(("e", "EDGE_SE2", [("i", a), ("i", b)] + num(2) + ang() + tri(3)))
        for _ in range(int(rng.integers(0, 4))):
            a = V["se2"][int(rng.integers(len(V["se2"])))]
            b = V["r2"][int(rng.integers(len(V["r2"])))]
            edges.append(("e", "EDGE_SE2_XY", [("i", a), ("i", b)] + num(2) + tri(2)))
    pids = []
    if "se3" in kinds:
        for _ in range(int(rng.integers(1, 4))):
            pid = int(rng.integers(0, 6))
            pids.append(pid)
            params.append(("p", "PARAMS_SE3OFFSET", [("i", pid)] + num(3) + quat()))
        if len(set(pids)) > 1:
            ctx.count("class:several_param_ids")
        for _ in range(int(rng.integers(1, 5))):
            a, b = [V["se3"][int(x)] for x in rng.choice(len(V["se3"]), 2, replace=False)]
            q = [("q", float(x)) for x in np.array(gen.unit_quat(rng)[0]) * (1.0 if rng.random() < 0.5 else float(rng.uniform(0.5, 2.0)))]
            edges.append(("e", "EDGE_SE3:QUAT", [("i", a), ("i", b)] + num(3) + q + tri(6)))
        for _ in range(int(rng.integers(0, 4))):
            a = V["se3"][int(rng.integers(len(V["se3"])))]
            b = V["r3"][int(rng.integers(len(V["r3"])))]
            edges.append(("e", "EDGE_SE3_TRACKXYZ", [("i", a), ("i", b), ("i", pids[int(rng.integers(len(pids)))])] + num(3) + tri(3)))
    if with_custom:
        allv = [v for k in kinds for v in V[k]]
        two_d = V.get("se2", []) + V.get("r2", []) if "se2" in kinds else []
        for _ in range(int(rng.integers(0, 3))):
            pool = two_d if (two_d and rng.random() < 0.5) else (V["se3"] + V["r3"] if "se3" in kinds else two_d)
            if len(pool) >= 2:
                a, b = [pool[int(x)] for x in rng.choice(len(pool), 2, replace=False)]
                edges.append(("c", "EDGE_VF_DIST", [("i", a), ("i", b)] + num(2)))
        if two_d and rng.random() < 0.5:
            edges.append(("c", "EDGE_VF_PRIOR", [("i", two_d[int(rng.integers(len(two_d)))])] + num(3)))
    if edges and rng.random() < 0.3:
        edges.append(edges[int(rng.integers(len(edges)))])  # the same edge line twice
        ctx.count("class:duplicate_edge_line")
    # legal interleaving: a TRACKXYZ edge must come after some definition of its parameter id
    items = recs + params + edges
    order = list(rng.permutation(len(items)))
    seq = [items[int(j)] for j in order]
    defined = set()
    out = []
    deferred = []
    for it in seq:
        if it[1] == "PARAMS_SE3OFFSET":
            defined.add(it[2][0][1])
            out.append(it)
            still = []
            for d in deferred:
                if d[2][2][1] in defined:
                    out.append(d)
                else:
                    still.append(d)
            deferred = still
        elif it[1] == "EDGE_SE3_TRACKXYZ" and it[2][2][1] not in defined:
            deferred.append(it)
        else:
            out.append(it)
    assert not deferred
    # render with junk and blank lines
    lines = []
    rendered = {}
    for it in out:
        while rng.random() < 0.25:
            jk = str(rng.choice(list(JUNK)))
            lines.append((JUNK[jk](rng) + ("\r\n" if crlf else "\n"), "junk"))
            ctx.count("class:junk:" + jk)
        if rng.random() < 0.1:
            lines.append((str(rng.choice(["", "   ", "\t"])) + ("\r\n" if crlf else "\n"), "blank"))
        if id(it) not in rendered:
            rendered[id(it)] = render(rng, it[1], it[2], crlf)
        lines.append((rendered[id(it)], it[1]))  # an item listed twice is written as two identical lines
        ctx.count("line:" + it[1])
    if rng.random() < 0.3:
        lines.append(("# trailing comment without newline", "junk"))
    return lines


def expected_from_text(lines, custom_tags):
    """Independent expectation: tokenise every line."""
    verts, edges, junk = [], [], []
    params = {}
    for text, _ in lines:
        for phys in text.replace("\r\n", "\n").split("\n"):
            if phys == "" and text.endswith("\n"):
                continue
            r = R.parse_g2o_line(phys)
            if r is None:
                continue
            if isinstance(r, tuple):
                head = phys.split(" ", 1)[0]
                if head in custom_tags and " " in phys:
                    toks = phys[len(head) + 1:].split()
                    edges.append({"what": "custom", "tag": head, "tokens": toks})
                else:
                    junk.append(phys.rstrip())
                continue
            if r["what"] == "vertex":
                verts.append(r)
            elif r["what"] == "param":
                params[(r["tag"], r["id"])] = r
            else:
                if r["type"] == "lm":
                    if r["kind"] == "se2":
                        r["off"] = R.identity("se2")
                        r["off_id"] = 0
                    else:
                        r["off"] = list(params[("PARAMS_SE3OFFSET", r["off_id"])]["value"])
                edges.append(r)
    return verts, edges, params, junk


def pose_matches(k, live, tokens):
    if k == "se2":
        tol = 2 * R.EPS * abs(tokens[2]) + 8 * R.EPS
        return live[:2] == tokens[:2] and R.ang_diff(live[2], tokens[2]) <= max(tol, 1e-12 * max(1.0, abs(tokens[2]))) and -math.pi <= live[2] <= math.pi
    return M.same_numbers(k, live, tokens)


def compare_loaded(ctx, g, verts, edges, params, feats, case, name="objects-match-tokenizer"):
    ok = len(g._vertices) == len(verts) and len(g._edges) == len(edges)
    why = None if ok else ("counts", len(g._vertices), len(verts), len(g._edges), len(edges))
    if ok:
        for v, r in zip(g._vertices, verts):
            if not (v.id == r["id"] and M.kind(v.pose) == r["kind"] and pose_matches(r["kind"], M.fl(v.pose), r["pose"])):
                ok, why = False, ("vertex", str(v.id), M.fl(v.pose), r)
                break
    if ok:
        for e, r in zip(g._edges, edges):
            if r["what"] == "custom":
                t = r["tokens"]
                if r["tag"] == "EDGE_VF_DIST":
                    same = isinstance(e, custom.TaggedDistanceEdge) and list(e.vertex_ids) == [int(t[0]), int(t[1])] and float(e.estimate) == float(t[2]) and float(e.information[0, 0]) == float(t[3])
                else:
                    same = isinstance(e, custom.TaggedPriorEdge) and list(e.vertex_ids) == [int(t[0])] and M.fl(e.estimate) == [float(t[1]), float(t[2])]
                if not same:
                    ok, why = False, ("custom edge", r)
                    break
                continue
            cls_ok = type(e) is (M.EdgeOdometry if r["type"] == "odo" else M.EdgeLandmark)
            same = cls_ok and list(e.vertex_ids) == r["ids"] and np.array_equal(np.asarray(e.information, dtype=float), np.array(r["info"]))
            est = M.fl(e.estimate)
            if same and r["type"] == "odo" and r["kind"] == "se2":
                same = type(e.estimate) is M.PoseSE2 and pose_matches("se2", est, r["est"])
            elif same and r["type"] == "odo":
                q = np.array(r["est"][3:])
                qn = q / np.linalg.norm(q)
                nq = float(np.linalg.norm(q))
                raw_ok = (not math.isfinite(nq)) or nq == 0.0  # nothing to normalise to: the numbers as written are all there is
                same = type(e.estimate) is M.PoseSE3 and est[:3] == r["est"][:3] and ((raw_ok and np.array_equal(np.array(est[3:]), q, equal_nan=True)) or
                                                                                      min(np.abs(np.array(est[3:]) - qn).max(), np.abs(np.array(est[3:]) + qn).max()) <= 4 * R.EPS)
            elif same:
                kp = R.POINT_OF[r["kind"]]
                same = type(e.estimate) is M.CLS[kp] and M.same_numbers(kp, est, r["est"])
                off = M.fl(e.offset) if e.offset is not None else None
                same = same and off is not None and type(e.offset) is M.CLS[r["kind"]] and pose_matches(r["kind"], off, r["off"]) and e.offset_id == r["off_id"]
            if not same:
                ok, why = False, ("edge", r, est, getattr(e, "offset_id", None), M.fl(e.offset) if getattr(e, "offset", None) is not None else None)
                break
    if ok:
        gp = g._g2o_params or {}
        ok = list(gp.keys()) == list(params.keys()) or set(gp.keys()) == set(params.keys())
        why = None if ok else ("param keys", list(map(str, gp.keys())), list(map(str, params.keys())))
        if ok:
            for key, r in params.items():
                if not pose_matches(r["kind"], M.fl(gp[key].value), r["value"]):
                    ok, why = False, ("param value", str(key), M.fl(gp[key].value), r["value"])
                    break
    ctx.check(name, ok, feats, {"why": why}, case)
    return ok


class Capture(logging.Handler):
    def __init__(self):
        super().__init__(level=logging.DEBUG)
        self.records = []

    def emit(self, record):
        self.records.append(record)


def render_record(rec):
    """The text a handler would emit for a log record; a record whose message cannot be formatted renders as a marker (and is counted as a defect of
    the warning by the callers: the junk line it was meant to quote is not in it)."""
    try:
        return rec.getMessage()
    except Exception as ex:  # noqa: BLE001
        return "<unrenderable log record: %s: %s>" % (type(ex).__name__, ex)


def load_with_log(fn, *a, **kw):
    lg = logging.getLogger("graphslam.graph")
    h = Capture()
    old_level, old_prop = lg.level, lg.propagate
    lg.addHandler(h)
    lg.setLevel(logging.DEBUG)
    lg.propagate = False
    lg2 = logging.getLogger("graphslam.load")
    old2 = lg2.propagate
    lg2.propagate = False
    nh = logging.NullHandler()
    lg2.addHandler(nh)
    try:
        g = fn(*a, **kw)
    finally:
        lg.removeHandler(h)
        lg.setLevel(old_level)
        lg.propagate = old_prop
        lg2.propagate = old2
        lg2.removeHandler(nh)
    return g, h.records


def graph_signature(g):
    sig = [("v", v.id, type(v.pose).__name__, tuple(M.fl(v.pose)), bool(v.fixed)) for v in g._vertices]
    for e in g._edges:
        sig.append(("e", type(e).__name__, tuple(e.vertex_ids), tuple(M.fl(e.estimate)), tuple(M.fl(e.information)), tuple(M.fl(e.offset)) if getattr(e, "offset", None) is not None else None,
                    getattr(e, "offset_id", None)))
    for k, p in (g._g2o_params or {}).items():
        sig.append(("p", k, tuple(M.fl(p.value))))
    return sig


def run_case(ctx, i, rng):
    import graphslam.load as L

    with_custom = bool(i % 2)
    lines = gen_file(rng, ctx, with_custom)
    text = "".join(t for t, _ in lines)
    d = tempfile.mkdtemp(prefix="c14-", dir=os.environ.get("VF_SCRATCH"))
    feats = {"with_custom_types": with_custom}
    case = {"file_text": text}
    ctypes = [custom.TaggedDistanceEdge, custom.TaggedPriorEdge]
    ctags = {c.TAG for c in ctypes}
    try:
        fname = ["in.g2o", "parking%20garage.g2o", "overlap_50%_run %s.g2o", "sp ace {x} [1].g2o", "in.g2o"][int(rng.integers(5))]
        if "%" in fname:
            ctx.count("class:file_name_with_percent_sign")
        path = os.path.join(d, fname)
        with open(path, "w", newline="") as f:
            f.write(text)
        verts, edges, params, junk = expected_from_text(lines, ctags if with_custom else set())
        try:
            g, recs = load_with_log(M.Graph.from_g2o, path, custom_edge_types=ctypes if with_custom else None)
        except Exception as ex:
            ctx.check("objects-match-tokenizer", False, dict(feats, exception=type(ex).__name__), {"message": str(ex)[:300]}, case)
            return
        compare_loaded(ctx, g, verts, edges, params, feats, case)
        # the loaded objects are independent of each other and of later loads: every edge's numbers are scaled in place by their own factor
        try:
            gm, _ = load_with_log(M.Graph.from_g2o, path, custom_edge_types=ctypes if with_custom else None)
            before = [np.array(e.information, dtype=float, copy=True) for e in gm._edges]
            for j, e in enumerate(gm._edges):
                e.information *= float(j + 2)
            # measurements and offsets as well: each loaded edge owns them (written in place: [0] += its own index + 1)
            for what in ("estimate", "offset"):
                objs = [getattr(e, what, None) for e in gm._edges]
                objs = [(j, o) for j, o in enumerate(objs) if isinstance(o, np.ndarray) and o.ndim == 1 and o.size and all(math.isfinite(float(x)) for x in o)]
                b4 = {j: float(o[0]) for j, o in objs}
                for j, o in objs:
                    o[0] = float(o[0]) + float(j + 1)
                for j, o in objs:
                    # (parameter-backed SE(3) offsets are shared by design between the edges that name the same PARAMS id: judged through the later load only)
                    if what == "estimate" and float(o[0]) != b4[j] + float(j + 1):
                        indep_extra = False
                        break
                else:
                    continue
                break
            else:
                indep_extra = True
            indep = indep_extra and all(np.array_equal(np.asarray(e.information), before[j] * float(j + 2), equal_nan=True) for j, e in enumerate(gm._edges))
            vb = [list(M.fl(v.pose)) for v in gm._vertices]
            for j, v in enumerate(gm._vertices):
                v.pose[0] = float(j) + 0.5
            indep = indep and all(M.fl(v.pose)[1:] == vb[j][1:] and M.fl(v.pose)[0] == float(j) + 0.5 for j, v in enumerate(gm._vertices)
                                  if all(math.isfinite(x) for x in vb[j]))
            g_after, _ = load_with_log(M.Graph.from_g2o, path, custom_edge_types=ctypes if with_custom else None)
            ctx.check("loaded-objects-independent", indep and graph_signature(g_after) == graph_signature(g), feats,
                      {"in_place_edits_stay_local": bool(indep), "later_load_unaffected": graph_signature(g_after) == graph_signature(g)}, case)
        except Exception as ex:  # noqa: BLE001
            ctx.check("loaded-objects-independent", False, dict(feats, exception=type(ex).__name__), {"message": str(ex)[:300]}, case)
        warned = [render_record(r) for r in recs if r.levelno >= logging.WARNING]
        okw = len(warned) == len(junk) and all(j in w for j, w in zip(junk, warned))
        ctx.check("warnings-match-junk-lines", okw, feats, {"expected_junk": junk[:5], "warnings": warned[:5], "n": [len(junk), len(warned)]}, case)
        if with_custom:
            n_custom = sum(1 for e in edges if e["what"] == "custom")
            got_custom = sum(1 for e in g._edges if isinstance(e, (custom.TaggedDistanceEdge, custom.TaggedPriorEdge)))
            # and without registration the same lines are junk: loaded graph loses exactly those edges
            g_nc, recs_nc = load_with_log(M.Graph.from_g2o, path)
            lost = len(g._edges) - len(g_nc._edges)
            ctx.check("custom-types-claim-own-lines", got_custom == n_custom and lost == n_custom and len([r for r in recs_nc if r.levelno >= logging.WARNING]) == len(junk) + n_custom,
                      feats, {"custom_lines": n_custom, "custom_objects": got_custom, "lost_without_registration": lost}, case)
            # a registered type may also claim a built-in tag: registered types are asked first, so every EDGE_SE2 line becomes one of its objects
            g_ov, _ = load_with_log(M.Graph.from_g2o, path, custom_edge_types=ctypes + [custom.OverridingOdometry])
            want = sum(1 for t, kind in lines if kind == "EDGE_SE2")
            got = sum(1 for e in g_ov._edges if type(e) is custom.OverridingOdometry)
            plain = sum(1 for e in g_ov._edges if type(e) is M.EdgeOdometry and isinstance(e.estimate, M.PoseSE2))
            ctx.check("custom-types-claim-own-lines", got == want and plain == 0 and len(g_ov._edges) == len(g._edges), dict(feats, variant="registered type claims the built-in tag EDGE_SE2"),
                      {"EDGE_SE2_lines": want, "claimed": got, "left_to_builtin_parser": plain}, case)
            # several registered types that recognise the *same* tag: the caller's list order decides (first one that accepts the line), whatever the
            # hash order of the classes is; and a type that declines a line (returns None) leaves it to the next one, line by line
            firsts = [custom.make_dist_variant("A"), custom.make_dist_variant("B"), custom.make_dist_variant("C")]
            order = [firsts[int(j)] for j in rng.permutation(3)]
            g_sh, _ = load_with_log(M.Graph.from_g2o, path, custom_edge_types=order + [custom.TaggedPriorEdge])
            n_dist = sum(1 for e in edges if e["what"] == "custom" and e["tag"] == "EDGE_VF_DIST")
            got_first = sum(1 for e in g_sh._edges if type(e) is order[0])
            got_other = sum(1 for e in g_sh._edges if type(e) in order[1:])
            ctx.check("custom-types-claim-own-lines", got_first == n_dist and got_other == 0, dict(feats, variant="three registered types accept the same tag: list order decides"),
                      {"lines": n_dist, "first_listed_type_got": got_first, "later_types_got": got_other}, case)
            picky = [custom.make_dist_variant("even", accept=lambda a, b: (a + b) % 2 == 0), custom.make_dist_variant("odd", accept=lambda a, b: (a + b) % 2 == 1)]
            if rng.random() < 0.5:
                picky.reverse()
            g_pk, _ = load_with_log(M.Graph.from_g2o, path, custom_edge_types=picky + [custom.TaggedPriorEdge])
            want_even = sum(1 for e in edges if e["what"] == "custom" and e["tag"] == "EDGE_VF_DIST" and (int(e["tokens"][0]) + int(e["tokens"][1])) % 2 == 0)
            got_even = sum(1 for e in g_pk._edges if type(e).__name__ == "DistVariant_even")
            got_odd = sum(1 for e in g_pk._edges if type(e).__name__ == "DistVariant_odd")
            ctx.check("custom-types-claim-own-lines", got_even == want_even and got_odd == n_dist - want_even, dict(feats, variant="two registered types share a tag and tell their lines apart by content"),
                      {"lines": n_dist, "even": [got_even, want_even], "odd": [got_odd, n_dist - want_even]}, case)
        else:
            ctx.check("custom-types-claim-own-lines", True)
        # no state across loads: load another file with clashing ids and parameter ids, then this file again
        other = os.path.join(d, "other.g2o")
        with open(other, "w", newline="") as f:
            f.write("PARAMS_SE3OFFSET 0 9 9 9 0 0 0 1\nPARAMS_SE3OFFSET 1 8 8 8 1 0 0 0\nPARAMS_SE2OFFSET 0 7 7 1\nVERTEX_SE3:QUAT 1 0 0 0 0 0 0 1\nVERTEX_TRACKXYZ 2 1 1 1\n"
                    "EDGE_SE3_TRACKXYZ 1 2 1 0.5 0.5 0.5 1 0 0 1 0 1\nVERTEX_SE2 5 1 2 3\nVERTEX_XY 6 1 1\nEDGE_SE2_XY 5 6 0.1 0.2 1 0 1\n")
        load_with_log(M.Graph.from_g2o, other)
        g_again, _ = load_with_log(M.Graph.from_g2o, path, custom_edge_types=ctypes if with_custom else None)
        ctx.check("reload-after-another-file-identical", graph_signature(g) == graph_signature(g_again), feats, None, case)
        # differential: remove junk and blank lines
        clean = "".join(t for t, kind in lines if kind not in ("junk", "blank"))
        p2 = os.path.join(d, "clean.g2o")
        with open(p2, "w", newline="") as f:
            f.write(clean)
        g2, recs2 = load_with_log(M.Graph.from_g2o, p2, custom_edge_types=ctypes if with_custom else None)
        ctx.check("junk-removal-changes-nothing", graph_signature(g) == graph_signature(g2) and not [r for r in recs2 if r.levelno >= logging.WARNING], feats,
                  {"warnings_on_clean_file": [render_record(r) for r in recs2][:3]}, case)
        # entry points
        if not with_custom:
            base = graph_signature(g)
            same = True
            bad = None
            for fn in (L.load_g2o, L.load_g2o_r2, L.load_g2o_r3, L.load_g2o_se2, L.load_g2o_se3):
                gg, _ = load_with_log(fn, path)
                if graph_signature(gg) != base or type(gg) is not M.Graph:
                    same, bad = False, fn.__name__
            ctx.check("entry-points-agree", same, feats, {"differs": bad}, case)
    finally:
        shutil.rmtree(d, ignore_errors=True)
    types = {k for _, k in lines if k not in ("junk", "blank")}
    if len(types) >= 3 and junk:
        ctx.nontrivial(gen.fingerprint({"text": text}))
    ctx.sample({"first_lines": [t for t, _ in lines[:6]], "n_lines": len(lines), "junk_lines": len(junk), "with_custom_types": with_custom}, cap=2)


def _dataset_case(name):
    def f(ctx):
        from .. import datasets

        if not datasets.available(name):
            ctx.skip("dataset file missing: " + name)
            return
        with open(datasets.path(name)) as fh:
            lines = [(ln, "line") for ln in fh.readlines()]
        verts, edges, params, junk = expected_from_text(lines, set())
        g, recs = load_with_log(M.Graph.from_g2o, datasets.path(name))
        compare_loaded(ctx, g, verts, edges, params, {"with_custom_types": False, "where": "dataset:" + name}, {"dataset": name})
        warned = [render_record(r) for r in recs if r.levelno >= logging.WARNING]
        ctx.check("warnings-match-junk-lines", len(warned) == len(junk), {"where": "dataset:" + name}, {"n": [len(junk), len(warned)]}, {"dataset": name})
        ctx.count("dataset:" + name)
        ctx.nontrivial("dataset-" + name)
    return f


DATASET_CASES = [_dataset_case("intel"), _dataset_case("garage")]


def extra_stage(tier, seed, tmp):
    """thorough tier: the repository's own test-suite as a workload under this property's monitors (every Graph.optimize / Graph.from_g2o call)."""
    if tier != "thorough":
        return None
    from ..runner import suite_under_monitors

    return suite_under_monitors("C14", seed, tmp)
