"""C01 - analytic edge Jacobians are the exact derivative of the edge error.

Monitor: post-condition on EdgeOdometry.calc_jacobians / EdgeLandmark.calc_jacobians, evaluated
(a) on directly constructed edges over hostile value classes and (b) in situ, through a wrapper attached
to the real methods, on every call made while the real optimizer runs.
Oracle: forward-mode AD of the independent reference error through the reference boxplus, plus a
Richardson central difference of the real error through the real boxplus as second opinion.
"""
import math

import numpy as np

from .. import gen, model as M, oracles as O, refmodel as R
from ..monitors import Monitor
from ..runner import Skip

RULE = ("cases i=0..N-1 from rng(seed, 1, 0, i): 8 edge kinds (odometry r2/r3/se2/se3, landmark se2->r2, se3->r3, r2->r2, r3->r3) "
        "round-robin; operands from hostile classes (translations 1e-3..1e4/1e6, angles at +-pi / shifted by 2*pi*k / huge, "
        "quaternions w<0, w=0, 180deg, identity, near-identity; offsets with rotation); every 10th case is an in-situ optimizer run "
        "whose calc_jacobians calls are observed through a wrapper; every 10th case is an operand history (estimate / vertex pose / offset replaced or modified in place "
        "between calls on one live edge; a third of the steps are small nudges of 1e-9..1e-3 relative size, a third of the histories far from the origin); every 5th direct case holds the returned Jacobians while two more edges of the same type are linearised (they must not change). distinct = fingerprint of rounded operands; non-trivial = "
        "some operand has a non-identity rotation and a non-zero translation (R^n edges: non-zero translation)."
        " later additions: partly coinciding operands, integer-dtype information, histories on loader-built edges, pose-level Jacobians scaled in place by a client beforehand.")
PLAN = {
    "quick": {"cases": 6000, "soft_s": 60, "min_nontrivial": 500,
              "require": ["eval:jac-vs-AD", "eval:jac-vs-FD-of-real-error", "eval:returned-jacobians-stay-valid", "kind:odo-se3", "kind:lm-se3-r3", "kind:lm-se2-r2", "insitu_calls_observed",
                          "class:q:wneg", "class:q:wzero", "class:a:nearpi_in", "class:offset_rotated", "class:far_from_origin_close_together", "class:operands_of_pose_subclasses", "history:estimate:replace", "history:estimate:in-place", "history:vertex0:in-place",
                          "history:offset:replace"]},
    "thorough": {"cases": 240000, "soft_s": 1100, "min_nontrivial": 20000,
                 "require": ["eval:jac-vs-AD", "eval:jac-vs-FD-of-real-error", "eval:returned-jacobians-stay-valid", "kind:odo-se3", "kind:lm-se3-r3", "kind:lm-se2-r2", "insitu_calls_observed",
                             "class:q:wneg", "class:q:wzero", "class:a:nearpi_in", "class:offset_rotated"]},
}
ASSUMPTIONS = ["SE(3) operands are unit quaternions (|norm-1| <= 64 eps); SE(2) cases whose angular error is within 1e-9 of +-pi are excluded as the property states"]

EDGE_KINDS = [("odo", "r2"), ("odo", "r3"), ("odo", "se2"), ("odo", "se3"), ("lm", "se2"), ("lm", "se3"), ("lm", "r2"), ("lm", "r3")]


def make_edge(rng, typ, k, maxexp, labels):
    """Direct edge with attached vertices."""
    if typ == "odo":
        p1, l1 = gen.pose(rng, k, maxexp)
        p2, l2 = gen.pose(rng, k, maxexp)
        z, l3 = gen.pose(rng, k, maxexp)
        labels |= l1 | l2 | l3
        if rng.random() < 0.3:
            # measurement consistent with the poses plus small noise (small errors), in addition to arbitrary ones
            z = gen.perturb(rng, k, R.vals(R.ominus(k, gen.normalize_pose(k, p2), gen.normalize_pose(k, p1))), 0.01, 0.01)
            if rng.random() < 0.5 and k == "se3":
                z = z[:3] + [-x for x in z[3:]]
                labels.add("q:zneg")
        if rng.random() < 0.15:
            # a pair far from the origin but close together (map coordinates such as UTM metres): the error only depends on the difference
            nt0 = {"r2": 2, "r3": 3, "se2": 2, "se3": 3}[k]
            shift = [float(rng.choice([-1.0, 1.0]) * 10.0 ** rng.uniform(5, 10)) for _ in range(nt0)]
            near1, near2 = rng.normal(size=nt0) * 3.0, rng.normal(size=nt0) * 3.0
            p1 = [sh + float(d) for sh, d in zip(shift, near1)] + p1[nt0:]
            p2 = [sh + float(d) for sh, d in zip(shift, near2)] + p2[nt0:]
            labels.add("far_from_origin_close_together")
        if rng.random() < 0.15:
            # operands that coincide in part (equal values, distinct objects): same orientation / same position / one shared coordinate / all equal
            p2, how = gen.coincide(rng, k, p1, p2)
            labels.add("operands_coincide:" + how)
            if rng.random() < 0.3:
                z, how = gen.coincide(rng, k, p1 if rng.random() < 0.5 else p2, z)
                labels.add("operands_coincide:measurement:" + how)
        info, li = gen.info(rng, R.CD[k], 1e3)
        spec = {"type": "odo", "ids": [1, 2], "info": info.tolist(), "est": z, "est_kind": k}
        vs = [M.Vertex(1, M.mkpose(k, p1)), M.Vertex(2, M.mkpose(k, p2))]
    else:
        kp = R.POINT_OF[k]
        p1, l1 = gen.pose(rng, k, maxexp)
        l, l2 = gen.pose(rng, kp, maxexp)
        z, l3 = gen.pose(rng, kp, maxexp)
        off, l4 = gen.pose(rng, k, min(maxexp, 3.0))
        if rng.random() < 0.15:
            off = R.identity(k)
            labels.add("offset_identity")
        elif k in ("se2", "se3"):
            labels.add("offset_rotated")
            if k == "se3" and min(off[3:6]) < 0:
                labels.add("offset_quat_negative_component")
        labels |= l1 | l2 | l3 | {"off:" + x for x in l4}
        if rng.random() < 0.15:
            ntp = 2 if kp == "r2" else 3
            how = str(rng.choice(["landmark_at_the_pose_position", "landmark_shares_a_coordinate", "measurement_equals_landmark", "offset_translation_equals_pose_translation"]))
            if how == "landmark_at_the_pose_position":
                l = list(p1[:ntp])
            elif how == "landmark_shares_a_coordinate":
                j = int(rng.integers(ntp))
                l = list(l)
                l[j] = p1[j]
            elif how == "measurement_equals_landmark":
                z = list(l)
            else:
                off = list(p1[:ntp]) + list(off[ntp:])
            labels.add("operands_coincide:" + how)
        info, li = gen.info(rng, R.CD[kp], 1e3)
        spec = {"type": "lm", "ids": [1, 2], "info": info.tolist(), "est": z, "est_kind": kp, "off": off, "off_kind": k, "off_id": 0}
        vs = [M.Vertex(1, M.mkpose(k, p1)), M.Vertex(2, M.mkpose(kp, l))]
    if rng.random() < 0.08:
        # an information matrix written without decimal points (integer dtype): the Jacobians are still real-valued derivatives
        n_i = len(spec["info"])
        spec["info"] = np.diag(rng.integers(1, 50, size=n_i)).astype(int).tolist()
        spec["info_dtype"] = "int"
        labels.add("information_integer_dtype")
    e = M.build_edge(spec)
    e.vertices = vs
    if rng.random() < 0.1:
        # operands that are instances of user subclasses of the pose classes (same numbers, same kind)
        for v in vs:
            if rng.random() < 0.7:
                v.pose = M.as_subclass(v.pose)
        if rng.random() < 0.5:
            e.estimate = M.as_subclass(e.estimate)
        if getattr(e, "offset", None) is not None and rng.random() < 0.5:
            e.offset = M.as_subclass(e.offset)
        labels.add("operands_of_pose_subclasses")
    return e, spec


def nontrivial(e):
    P, ks, est, off = O.edge_operands(e)
    ok_t = any(abs(x) > 0 for p, k in zip(P, ks) for x in p[:{"r2": 2, "r3": 3, "se2": 2, "se3": 3}[k]])
    rot = False
    for p, k in zip(P, ks):
        if k == "se2" and abs(p[2]) > 1e-12:
            rot = True
        if k == "se3" and abs(abs(p[6]) - 1.0) > 1e-12:
            rot = True
    if all(k in ("r2", "r3") for k in ks):
        rot = True
    return ok_t and rot


def direct_case(ctx, i, rng):
    typ, k = EDGE_KINDS[(i // 1) % len(EDGE_KINDS)]
    maxexp = 4.0 if ctx.tier == "quick" else 6.0
    labels = set()
    e, spec = make_edge(rng, typ, k, maxexp, labels)
    kname = "%s-%s" % (typ, k) if typ == "odo" else "lm-%s-%s" % (k, R.POINT_OF[k])
    ctx.count("kind:" + kname)
    case = {"edge": spec, "poses": [M.fl(v.pose) for v in e.vertices], "kinds": M.edge_kinds(e)}
    if i % 7 == 0:
        # a client (a weighted custom edge) has asked the poses for their building-block Jacobians and scaled what it got, in place
        with np.errstate(all="ignore"):
            for v in e.vertices:
                for name in ("jacobian_self_oplus_other_wrt_self", "jacobian_self_oplus_other_wrt_other", "jacobian_self_ominus_other_wrt_self", "jacobian_self_ominus_other_wrt_other", "jacobian_boxplus"):
                    try:
                        Jb = getattr(v.pose, name)(v.pose) if name != "jacobian_boxplus" else v.pose.jacobian_boxplus()
                        Jb *= 0.25
                    except Exception:  # noqa: BLE001
                        pass
        ctx.count("class:pose_level_jacobians_scaled_in_place_by_a_client")
    res = O.check_edge_jacobians(ctx, e, "direct", fd=True, case=case, rng=rng)
    if res is None:
        return
    if i % 5 == 0:
        # a client that collects the Jacobians of several edges before using them (its own solver, a covariance estimate): what one call returned
        # must still be the derivative after other edges of the same type have been linearised
        with np.errstate(all="ignore"):
            held = e.calc_jacobians()
            saved = [np.array(J, dtype=float, copy=True) for J in held]
            for _ in range(2):
                e2, _spec2 = make_edge(rng, typ, k, maxexp, set())
                try:
                    e2.calc_error()
                    e2.calc_jacobians()
                    e2.calc_chi2_gradient_hessian()
                except Exception:  # noqa: BLE001 - hostile operands of the second edge are not judged here
                    pass
        same = len(held) == len(saved) and all(np.array_equal(np.asarray(a), b, equal_nan=True) for a, b in zip(held, saved))
        ctx.check("returned-jacobians-stay-valid", same, {"kind": kname}, {"note": "arrays returned by calc_jacobians changed after other edges were linearised"}, case)
    for lab in labels:
        ctx.count("class:" + lab)
    if nontrivial(e):
        ctx.nontrivial(gen.fingerprint(case))
    ctx.sample({"kind": kname, "poses": case["poses"], "estimate": spec["est"], "offset": spec.get("off")}, cap=2)


def insitu_case(ctx, i, rng):
    """Observe every calc_jacobians call made by the real optimizer on a noisy graph (poses far from the origin)."""
    k = ["se2", "se3", "r2", "r3"][(i // 10) % 4]
    n = int(rng.integers(3, 9))
    start = gen.normalize_pose(k, gen.pose(rng, k, 3.0)[0])
    if k == "se2":
        start[2] = R.val(R.wrap(start[2]))
    spec = gen.trajectory_graph(rng, k, n, n_loops=int(rng.integers(0, 3)), n_lm=int(rng.integers(0, 3)), meas_t=0.05, meas_r=0.03,
                                init_t=0.3, init_r=0.2, cond=100.0, cross=True, start=start)
    g = M.build(spec)
    mon = Monitor()
    seen = [0]

    def after(args, kwargs, result, exc, token):
        if exc is not None:
            return
        seen[0] += 1
        O.check_edge_jacobians(ctx, args[0], "in-situ", fd=False, case={"graph": {k2: v for k2, v in spec.items() if k2 != "truth"}, "call": seen[0]})

    with mon:
        mon.attach(M.EdgeOdometry, "calc_jacobians", after=after)
        mon.attach(M.EdgeLandmark, "calc_jacobians", after=after)
        try:
            M.quiet_optimize(g, max_iter=3, tol=0.0)
        except Exception as ex:  # a diverging run may end in a solver error; what was observed until then stands
            ctx.count("insitu_optimizer_exception:" + type(ex).__name__)
    ctx.count("insitu_calls_observed", seen[0])
    ctx.count("insitu_runs")
    if seen[0]:
        ctx.nontrivial(gen.fingerprint(spec))


def mutate_operand(rng, e, maxexp=3.0):
    """One step of an operand history on a live edge: replace or modify in place the estimate / a vertex pose / the offset."""
    targets = ["vertex%d" % j for j in range(min(len(e.vertices), 10))] + (["offset"] if getattr(e, "offset", None) is not None else [])
    if isinstance(e.estimate, M.BasePose):
        targets.append("estimate")
    tgt = str(rng.choice(targets))
    how = str(rng.choice(["replace", "in-place"]))
    obj = e.estimate if tgt == "estimate" else e.offset if tgt == "offset" else e.vertices[int(tgt[-1])].pose
    k = M.kind(obj)
    if rng.random() < 0.35:
        # a *small* change relative to the operand's size (what an optimizer iteration or a calibration tweak does): 1e-9..1e-3 relative in translation,
        # 1e-9..1e-2 rad in rotation - anything that decides "unchanged" with a tolerance is wrong here
        old = M.fl(obj)
        nt = {"r2": 2, "r3": 3, "se2": 2, "se3": 3}[k]
        mt = float(10 ** rng.uniform(-9, -3)) * max(1.0, R.tmag(k, old))
        mr = float(10 ** rng.uniform(-9, -2))
        new = gen.perturb(rng, k, old, mt, mr)
        how += ":nudge"
    else:
        new, _ = gen.pose(rng, k, maxexp)
    new = M.fl(M.mkpose(k, new))
    if how.startswith("replace"):
        val = M.mkpose(k, new) if k != "se2" else M.raw_se2(new)
        if tgt == "estimate":
            e.estimate = val
        elif tgt == "offset":
            e.offset = val
        else:
            e.vertices[int(tgt[-1])].pose = val
    elif rng.random() < 0.5:
        obj[:] = new
    else:
        np.copyto(np.asarray(obj), np.array(new))  # a write that does not go through the pose object's own __setitem__
    return "%s:%s" % (tgt, how)


def loaded_edge(rng, typ, k):
    """The edge as the loader builds it: a two-vertex .g2o file is written and read back (only the kinds the format can express)."""
    import os
    import shutil
    import tempfile

    labels = set()
    e0, spec = make_edge(rng, typ, k, 2.0, labels)
    if typ == "lm":
        spec = dict(spec, off=R.identity(k)) if k == "se2" else spec
    d = tempfile.mkdtemp(prefix="c01-", dir=os.environ.get("VF_SCRATCH"))
    try:
        verts = [{"id": 1, "kind": M.kind(e0.vertices[0].pose), "pose": gen.normalize_pose(M.kind(e0.vertices[0].pose), M.fl(e0.vertices[0].pose)), "fixed": False},
                 {"id": 2, "kind": M.kind(e0.vertices[1].pose), "pose": gen.normalize_pose(M.kind(e0.vertices[1].pose), M.fl(e0.vertices[1].pose)), "fixed": False}]
        gs = {"vertices": verts, "edges": [dict(spec, info_dtype=None)], "params": ([{"tag": "PARAMS_SE3OFFSET", "id": 0, "value": gen.normalize_pose("se3", spec["off"])}] if (typ == "lm" and k == "se3") else [])}
        gs["edges"][0].pop("info_dtype", None)
        pth = os.path.join(d, "e.g2o")
        M.build(gs).to_g2o(pth)
        g = M.Graph.from_g2o(pth)
        return g._edges[0], gs["edges"][0], g
    finally:
        shutil.rmtree(d, ignore_errors=True)


def history_case(ctx, i, rng):
    """The Jacobians must follow the current operands after any sequence of replacements / in-place modifications
    (a result memoised on part of the operands goes stale here)."""
    typ, k = EDGE_KINDS[(i // 10) % len(EDGE_KINDS)]
    labels = set()
    e, spec = make_edge(rng, typ, k, 3.0 if rng.random() < 0.7 else 6.0, labels)  # a third of the histories far from the origin (UTM-like coordinates)
    keep_graph = None
    if k in ("se2", "se3") and rng.random() < 0.4:
        # the same kind of history on an edge that came out of the loader (a 2-D landmark edge is born with an identity offset there, and is later
        # given its real sensor offset by assignment or by an in-place write)
        try:
            e, spec, keep_graph = loaded_edge(rng, typ, k)
            ctx.count("class:history_on_an_edge_built_by_the_loader")
        except Exception:  # noqa: BLE001 - hostile values the format cannot carry: stay with the constructor-built edge
            pass
    hist = []
    for step in range(int(rng.integers(3, 7))):
        with np.errstate(all="ignore"):
            e.calc_error()
            e.calc_jacobians()  # first calls that a cache / stored flag could remember
        hist.append(mutate_operand(rng, e))
        case = {"edge": spec, "history": list(hist), "poses": [M.fl(v.pose) for v in e.vertices], "estimate": M.fl(e.estimate),
                "offset": M.fl(e.offset) if getattr(e, "offset", None) is not None else None}
        O.check_edge_jacobians(ctx, e, "history", fd=False, case=case)
        ctx.count("history_steps")
        ctx.count("history:" + hist[-1])
    ctx.nontrivial(gen.fingerprint({"spec": spec, "hist": hist}))


def run_case(ctx, i, rng):
    if i % 10 == 9:
        insitu_case(ctx, i, rng)
    elif i % 10 == 8:
        history_case(ctx, i, rng)
    else:
        direct_case(ctx, i, rng)


def extra_stage(tier, seed, tmp):
    """thorough tier: the repository's own test-suite as a workload under this property's monitors."""
    if tier != "thorough":
        return None
    from ..runner import suite_under_monitors

    return suite_under_monitors("C01", seed, tmp)


def _dataset_case(name, augment):
    def f(ctx):
        from .. import datasets

        if not datasets.available(name):
            ctx.skip("dataset file missing: " + name)
            return
        rng = np.random.default_rng([1, int(augment)])
        spec = datasets.load_spec(name, 600)
        if augment:
            spec = datasets.augment_with_landmarks(rng, spec, 40)
        g = M.build(spec)
        for stage in ("initial", "after one iteration"):
            edges = list(g._edges)
            for j in rng.permutation(len(edges))[:700]:
                e = edges[int(j)]
                O.check_edge_jacobians(ctx, e, 'dataset:' + name, fd=False)
            try:
                M.quiet_optimize(g, max_iter=1, tol=0.0)
            except Exception as ex:
                ctx.count("dataset_optimizer_exception:" + type(ex).__name__)
                break
        ctx.count("dataset:" + name + (":augmented" if augment else ""))
        ctx.nontrivial("dataset-%s-%s" % (name, augment))
    return f


DATASET_CASES = [_dataset_case("intel", False), _dataset_case("intel", True), _dataset_case("garage", False), _dataset_case("garage", True)]
