"""C12 - the optimization report is faithful and the stopping rule is the documented one.

Events: the chi2 / state trajectory x_0..x_n obtained by driving the real optimizer one iteration at a time (recorded at the
API boundary), the OptimizationResult and final state of one optimize(tol, max_iter) call on an identical copy, stdout, and
the state after split runs k1+k2+..=n.
Oracle: a small executable model of the documented stopping rule replayed on the recorded chi2 sequence.
"""
import math
import re

import numpy as np

from .. import gen, model as M, refmodel as R
from ..runner import Skip

RULE = ("cases from rng(seed, 12, 0, i): graphs of all pose types (trajectory and cluster graphs incl. custom edges), converging, diverging (far starts), singular (an unconstrained vertex: chi2 becomes NaN) and stationary "
        "(all vertices fixed / exactly consistent measurements / linear graph at its optimum); tol in {0, 1e-12..1e-1}, max_iter 1..30 (quick: ..12), verbose in {True, False}; "
        "one call vs single-iteration driving; random (all for n<=5) compositions k1+..+km=n. distinct = fingerprint(spec, tol, max_iter); non-trivial = run with >= 2 iterations."
        " later additions: the rule replayed exactly on the run's own reported sequence; negative chi2 (indefinite information); durations; third printed column; between-call edits that touch only edge-side data, release a fixed vertex.")
REQ = ["eval:stopping-rule", "eval:report-chi2-sequence", "eval:final-state-is-trajectory-state", "eval:final-chi2-is-calc_chi2", "eval:verbose-does-not-alter", "eval:split-run-reproduces",
       "eval:printed-table-matches-report", "eval:str(result)-matches-report", "class:early_stop", "class:max_iter_stop", "class:stationary", "class:diverging", "class:tol=0", "class:converged_at_max_iter", "class:singular", "class:nan_chi2_in_trace", "class:edge_overriding_calc_chi2", "eval:next-call-after-external-edit-equals-fresh-graph", "class:indefinite_information(negative chi2 possible)", "class:fixed_vertex_released_between_calls", "class:landmark_offset_written_in_place_between_calls", "class:call_with_default_arguments"]
PLAN = {
    "quick": {"cases": 1200, "soft_s": 80, "min_nontrivial": 300, "require": REQ},
    "thorough": {"cases": 48000, "soft_s": 1400, "min_nontrivial": 10000, "require": REQ},
}
ASSUMPTIONS = ["state and chi2 comparisons use 1e-12 relative tolerance (observed: bit-identical); a stopping decision within that tolerance of its threshold accepts both continuations (counted)"]
EPSF = float(np.finfo(float).eps)


def rule_model(chi, tol, max_iter):
    """Documented rule on a chi2 sequence chi[0..max_iter]: returns (stop_index, converged, n_results)."""
    for i in range(1, max_iter):
        rel = (chi[i - 1] - chi[i]) / (chi[i - 1] + EPSF)
        if chi[i] <= chi[i - 1] and rel < tol:
            return i, True, i + 1
    rel = (chi[max_iter - 1] - chi[max_iter]) / (chi[max_iter - 1] + EPSF)
    return max_iter, bool(chi[max_iter] <= chi[max_iter - 1] and rel < tol), max_iter


def ambiguous(chi, tol, upto):
    for i in range(1, upto + 1):
        rel = (chi[i - 1] - chi[i]) / (chi[i - 1] + EPSF)
        if math.isfinite(rel) and (abs(rel - tol) <= 1e-9 * max(abs(tol), 1e-300) or (chi[i] != chi[i - 1] and abs(chi[i] - chi[i - 1]) <= 1e-12 * abs(chi[i - 1]))):
            return True
    return False


def near_tie(chi, tol, upto):
    """A decision of the rule on chi[1..upto] that rounding can flip: chi2 unchanged to 1e-9 relative (is it "<=" ?), or a relative decrease within 1e-9 of tol."""
    for i in range(1, min(upto, len(chi) - 1) + 1):
        a, b = chi[i - 1], chi[i]
        if not (math.isfinite(a) and math.isfinite(b)):
            continue
        if abs(a - b) <= 1e-9 * max(abs(a), abs(b), 1e-300):
            return True
        rel = (a - b) / (a + EPSF)
        if abs(rel - tol) <= 1e-9 * max(abs(tol), 1e-300):
            return True
    return False


def own_sequence_consistent(res, tol, max_iter):
    """The documented rule replayed on the chi2 values the run reports (initial_chi2, every completed iteration's chi2): returns None if num_iterations,
    converged, the number of iteration records and final_chi2 are what the rule dictates for exactly these values, else a description."""
    its = list(res.iteration_results)
    S = [res.initial_chi2] + [r.chi2 for r in its if r.chi2 is not None]
    if res.initial_chi2 is None or len(S) < 2:
        return "fewer than two chi2 values reported"
    L = len(S) - 1

    def cond(i):
        prev, cur = float(S[i - 1]), float(S[i])
        with np.errstate(all="ignore"):
            rel = (prev - cur) / (prev + EPSF)
        return bool(cur <= prev and rel < tol)
    if L > max_iter:
        return "more iterations reported than max_iter"
    for i in range(1, L):
        if cond(i):
            return "the rule was satisfied after iteration %d but the run went on" % i
    if L < max_iter:
        if not cond(L):
            return "stopped after iteration %d although the rule was not satisfied there" % L
        if not (bool(res.converged) and res.num_iterations == L and len(its) == L + 1 and its[-1].chi2 is None):
            return "early stop at %d reported inconsistently" % L
    else:
        if not (bool(res.converged) == cond(L) and res.num_iterations == max_iter and len(its) == max_iter):
            return "max_iter exit reported inconsistently (converged should be %s)" % cond(L)
    fin, last = res.final_chi2, S[L]
    if not (fin == last or (fin != fin and last != last)):
        return "final_chi2 is not the last reported chi2"
    return None


def same_float(a, b, rel=1e-12):
    if a is None or b is None:
        return a is b
    if a == b or (a != a and b != b):
        return True
    if not (math.isfinite(a) and math.isfinite(b)):
        return False
    return abs(a - b) <= rel * max(abs(a), abs(b))


def same_state(sa, sb, rel=1e-12):
    return all(len(p) == len(q) and all(same_float(x, y, rel) for x, y in zip(p, q)) for p, q in zip(sa, sb))


def make_graph(rng, ctx):
    kind = rng.choice(["traj", "cluster", "stationary_fixed", "stationary_consistent", "stationary_linear_opt", "diverging", "singular"], p=[0.27, 0.18, 0.1, 0.12, 0.08, 0.15, 0.1])
    k = str(rng.choice(R.KINDS))
    if kind == "traj":
        spec = gen.trajectory_graph(rng, k, int(rng.integers(3, 10)), n_loops=int(rng.integers(0, 3)), n_lm=int(rng.integers(0, 3)), meas_t=0.05, meas_r=0.02, init_t=0.2, init_r=0.1)
        if rng.random() < 0.2:
            # a negatively weighted duplicate of one odometry edge with a far-off measurement (an "anti-constraint"; information that is not positive
            # semi-definite): the summed Hessian stays positive definite, but chi2 can be negative - the documented rule is arithmetic on whatever chi2 is
            odo = [e for e in spec["edges"] if e["type"] == "odo"]
            e0 = gen.copy_spec(odo[int(rng.integers(len(odo)))])
            e0["info"] = (-float(rng.uniform(0.2, 0.6)) * np.array(e0["info"])).tolist()
            nt = {"r2": 2, "r3": 3, "se2": 2, "se3": 3}[e0["est_kind"]]
            e0["est"] = [x + float(rng.uniform(2, 6)) for x in e0["est"][:nt]] + list(e0["est"][nt:])
            spec["edges"].append(e0)
            ctx.count("class:indefinite_information(negative chi2 possible)")
    elif kind == "cluster":
        spec, _ = gen.cluster_graph(rng, size=(2, 5))
        if rng.random() < 0.5:
            # an edge type that overrides calc_chi2 (robust cost): the report must use the edge's own chi2 everywhere
            v0 = spec["vertices"][int(rng.integers(len(spec["vertices"])))]
            nt = {"r2": 2, "r3": 3, "se2": 2, "se3": 3}[v0["kind"]]
            spec["edges"].append({"type": "custom:robustprior", "ids": [v0["id"]], "info": (np.eye(nt) * 4.0).tolist(), "est": [x + 1.5 for x in v0["pose"][:nt]], "est_kind": "array",
                                  "numeric": bool(rng.random() < 0.5)})
            ctx.count("class:edge_overriding_calc_chi2")
    elif kind == "stationary_fixed":
        spec, _ = gen.cluster_graph(rng, size=(2, 4))
        for v in spec["vertices"]:
            v["fixed"] = True
        ctx.count("class:stationary")
    elif kind == "stationary_consistent":
        spec = gen.trajectory_graph(rng, k, int(rng.integers(2, 7)), n_loops=0, n_lm=0)  # no noise, initial guess = truth
        ctx.count("class:stationary")
    elif kind == "stationary_linear_opt":
        kk = str(rng.choice(["r2", "r3"]))
        spec = gen.trajectory_graph(rng, kk, int(rng.integers(3, 7)), n_loops=2, n_lm=1, meas_t=0.1, init_t=1.0)
        g = M.build(spec)
        M.quiet_optimize(g, max_iter=3, tol=0.0)
        for v, p in zip(spec["vertices"], M.snapshot_poses(g)):
            v["pose"] = p
        ctx.count("class:stationary")
    elif kind == "singular":
        # an unconstrained free vertex: the normal equations are singular, the solver returns NaN, chi2 becomes NaN
        spec, _ = gen.cluster_graph(rng, size=(2, 4), weird_ids=False)
        kk = str(rng.choice(R.KINDS))
        spec["vertices"].append({"id": 10 ** 6, "kind": kk, "pose": gen.mild_pose(rng, kk), "fixed": False})
        ctx.count("class:singular")
    else:
        spec = gen.trajectory_graph(rng, str(rng.choice(["se2", "se3"])), int(rng.integers(3, 8)), n_loops=2, n_lm=1, meas_t=0.05, meas_r=0.02,
                                    init_t=float(rng.uniform(1, 20)), init_r=float(rng.uniform(0.8, 3)))
        ctx.count("class:diverging")
    return spec, str(kind)


def compositions(rng, n, tier):
    if n <= 5:
        out = []

        def rec(rem, cur):
            if rem == 0:
                out.append(list(cur))
                return
            for kk in range(1, rem + 1):
                rec(rem - kk, cur + [kk])
        rec(n, [])
        if len(out) > 6:
            idx = rng.choice(len(out), 6, replace=False)
            out = [out[int(j)] for j in idx]
        return out
    res = []
    for _ in range(3):
        cuts = sorted(rng.choice(np.arange(1, n), size=int(rng.integers(1, min(n, 5))), replace=False))
        parts = [int(b - a) for a, b in zip([0] + list(cuts), list(cuts) + [n])]
        res.append(parts)
    return res


def report_check(ctx, rng, spec, gkind, tol, max_iter, ffp):
    """Drive the real optimizer one iteration at a time, replay the documented rule on the recorded chi2 trace and compare with one real call.
    Returns (stop, conv, chi, verbose) or None."""
    case = {"graph": {k: v for k, v in spec.items() if k not in ("truth", "truth_by_id")}, "tol": tol, "max_iter": max_iter, "fix_first_pose": ffp}
    feats = {"graph_kind": gkind, "tol_zero": tol == 0.0}
    if tol == 0.0:
        ctx.count("class:tol=0")
    # --- trace by single-iteration driving
    g1 = M.build(spec)
    chi = []
    states = [M.snapshot_poses(g1)]
    try:
        with np.errstate(all="ignore"):
            chi.append(float(g1.calc_chi2()))
            for _ in range(max_iter):
                r = M.quiet_optimize(g1, max_iter=1, tol=0.0, fix_first_pose=ffp)
                states.append(M.snapshot_poses(g1))
                chi.append(float(g1.calc_chi2()))
                ctx.check("single-step-report", same_float(r.initial_chi2, chi[-2]) and same_float(r.final_chi2, chi[-1]) and r.num_iterations == 1 and len(r.iteration_results) == 1,
                          feats, {"initial": r.initial_chi2, "final": r.final_chi2, "trace": chi[-2:]}, case)
    except Exception as ex:
        raise Skip("trajectory driving raised " + type(ex).__name__)
    if any(c != c for c in chi):
        ctx.count("class:nan_chi2_in_trace")
    stop, conv, nres = rule_model(chi, tol, max_iter)
    amb = ambiguous(chi, tol, min(stop + 1, max_iter))
    # --- the real single call
    g2 = M.build(spec)
    verbose = bool(rng.random() < 0.5)
    out = ""
    import time as _time

    wall0 = _time.time()
    try:
        if verbose:
            res, out = M.quiet_optimize(g2, tol=tol, max_iter=max_iter, fix_first_pose=ffp, verbose=True)
        else:
            res = M.quiet_optimize(g2, tol=tol, max_iter=max_iter, fix_first_pose=ffp)
    except Exception as ex:
        ctx.check("stopping-rule", False, dict(feats, exception=type(ex).__name__), {"message": str(ex)[:300]}, case)
        return None
    wall = _time.time() - wall0
    if amb:
        ctx.count("ambiguous_decision(both continuations accepted)")
    # (1) exact: the documented rule applied to the chi2 values the run *itself* reports decides where it had to stop and what it had to say.
    #     No tolerance is involved: same floats, same formula; a 1-ulp difference between two ways of summing chi2 changes the values, not the rule.
    why_self = own_sequence_consistent(res, tol, max_iter)
    det_self = {"why": why_self, "reported": {"num_iterations": res.num_iterations, "converged": bool(res.converged), "len_iteration_results": len(res.iteration_results),
                                               "chi2": [res.initial_chi2] + [r.chi2 for r in res.iteration_results][:8], "final_chi2": res.final_chi2}, "tol": tol, "max_iter": max_iter}
    if not ctx.check("stopping-rule", why_self is None, dict(feats, basis="the run's own reported chi2 sequence"), det_self, case):
        return None
    # (2) the run agrees with the independent single-step trajectory: same stopping point, unless a decision sits within rounding of a tie / of tol
    ok_rule = (res.num_iterations == stop and bool(res.converged) == conv and len(res.iteration_results) == nres)
    if not ok_rule and (amb or near_tie(chi, tol, min(max(stop, res.num_iterations or 0) + 1, max_iter))):
        ctx.skip("stopping decision within rounding of its threshold")
        return None
    det = {"expected": {"num_iterations": stop, "converged": conv, "len_iteration_results": nres}, "reported": {"num_iterations": res.num_iterations, "converged": bool(res.converged),
           "len_iteration_results": len(res.iteration_results)}, "chi2_trace": chi[: stop + 2], "tol": tol, "max_iter": max_iter}
    ctx.check("stopping-rule", ok_rule, dict(feats, basis="independent single-step trajectory"), det, case)
    if not ok_rule:
        return None
    ctx.count("class:early_stop" if stop < max_iter else "class:max_iter_stop")
    if stop == max_iter and conv:
        ctx.count("class:converged_at_max_iter")
    # report contents
    seq_ok = same_float(res.initial_chi2, chi[0]) and same_float(res.final_chi2, chi[stop])
    for j in range(stop):
        ir = res.iteration_results[j]
        seq_ok = seq_ok and same_float(ir.chi2, chi[j + 1]) and ir.is_complete_iteration()
        # the reported relative change is the documented formula applied to the run's *own* neighbouring chi2 values (exactly: same floats, same
        # formula); against the independent trajectory only the chi2 values themselves are compared - near the optimum the relative change is a
        # difference of nearly equal numbers and two legitimate ways of summing chi2 give unrelated values for it
        own_prev = float(res.initial_chi2) if j == 0 else float(res.iteration_results[j - 1].chi2)
        with np.errstate(all="ignore"):
            exp_rel = -((own_prev - float(ir.chi2)) / (own_prev + EPSF)) if ir.chi2 is not None else None
        seq_ok = seq_ok and (ir.rel_diff is not None and exp_rel is not None and same_float(float(ir.rel_diff), float(exp_rel), 1e-12))
    if nres == stop + 1:
        seq_ok = seq_ok and not res.iteration_results[-1].is_complete_iteration()
    ctx.check("report-chi2-sequence", seq_ok, feats, {"reported": [res.initial_chi2] + [r.chi2 for r in res.iteration_results] + [res.final_chi2], "trace": chi[: stop + 1]}, case)
    ctx.check("final-state-is-trajectory-state", same_state(M.snapshot_poses(g2), states[stop]), feats, {"stop": stop}, case)
    with np.errstate(all="ignore"):
        c_now = float(g2.calc_chi2())
    ctx.check("final-chi2-is-calc_chi2", same_float(res.final_chi2, c_now), feats, {"final_chi2": res.final_chi2, "calc_chi2": c_now}, case)
    try:
        text = str(res)
        okstr = ("Converged = %s" % bool(res.converged)) in text and ("Iterations = %d" % res.num_iterations) in text and ("%.4f" % res.initial_chi2) in text and ("%.4f" % res.final_chi2) in text
        nrows = len([ln for ln in text.splitlines() if re.match(r"^\s*\d+\s", ln)])
        okstr = okstr and nrows == stop
    except Exception as ex:
        okstr, text = False, "raised " + type(ex).__name__
    ctx.check("str(result)-matches-report", okstr, feats, {"text": text[:400]}, case)
    # every iteration record (the incomplete last one of an early stop included) carries its own non-negative duration, and together they do not
    # exceed the duration of the whole call
    dur_ok = res.duration_s is not None and res.duration_s >= 0 and all((r.duration_s is not None and r.duration_s >= 0) for r in res.iteration_results) and \
        sum(float(r.duration_s) for r in res.iteration_results if r.duration_s is not None) <= float(res.duration_s) * (1 + 1e-6) + 1e-3 and \
        float(res.duration_s) <= wall + 1e-3  # ... which in turn cannot exceed the wall time the harness measured around the call
    # the three phase timings of an iteration record (linearisation, solve, update), where present, are parts of that record's duration
    for r in res.iteration_results:
        for name in ("calc_chi2_gradient_hessian_duration_s", "solve_duration_s", "update_duration_s"):
            d_ = getattr(r, name, None)
            if d_ is not None:
                dur_ok = dur_ok and 0.0 <= float(d_) <= (float(r.duration_s) if r.duration_s is not None else wall) + 1e-3
    ctx.check("durations-present", dur_ok, feats, None, case)
    # verbose does not alter
    g3 = M.build(spec)
    if verbose:
        res3 = M.quiet_optimize(g3, tol=tol, max_iter=max_iter, fix_first_pose=ffp)
    else:
        res3, out = M.quiet_optimize(g3, tol=tol, max_iter=max_iter, fix_first_pose=ffp, verbose=True)
    same_rep = (res3.num_iterations == res.num_iterations and bool(res3.converged) == bool(res.converged) and same_float(res3.final_chi2, res.final_chi2, 0.0)
                and same_float(res3.initial_chi2, res.initial_chi2, 0.0) and len(res3.iteration_results) == len(res.iteration_results))
    ctx.check("verbose-does-not-alter", same_rep and same_state(M.snapshot_poses(g3), M.snapshot_poses(g2), 0.0), feats, None, case)
    # printed table
    rows = [ln.split() for ln in out.splitlines() if re.match(r"^\s*\d+\s", ln)]
    ok_print = len(rows) == stop + 1
    # the table shows the values of the report of the run that printed it (res or res3 - identical by the check above), to 4 decimals
    printer = res if verbose else res3
    own = [printer.initial_chi2] + [r.chi2 for r in printer.iteration_results if r.chi2 is not None]
    ok_print = ok_print and len(own) == len(rows)
    if ok_print:
        for j, row in enumerate(rows):
            try:
                ok_print = ok_print and int(row[0]) == j and (float(row[1]) == float("%.4f" % own[j]) or (own[j] != own[j] and row[1] == "nan"))
                if j >= 1:
                    # third column: the relative change of that iteration as the report records it (6 decimals)
                    rd = printer.iteration_results[j - 1].rel_diff
                    ok_print = ok_print and len(row) >= 3 and rd is not None and ((rd != rd and row[2] == "nan") or float(row[2]) == float("%.6f" % rd))
            except ValueError:
                ok_print = False
    ctx.check("printed-table-matches-report", ok_print, feats, {"rows": rows[:6], "trace": chi[: stop + 1]}, case)
    # history: after the finished run a vertex is moved from outside; the next call on the same graph object must behave like the same call on a
    # fresh graph built in that state (report and state), i.e. nothing remembered from the previous call may be reused
    if rng.random() < 0.5:
        movable = [v for v in g2._vertices if not v.fixed and all(math.isfinite(x) for x in M.fl(v.pose))]
        if movable and all(math.isfinite(x) for p in M.snapshot_poses(g2) for x in p):
            v = movable[int(rng.integers(len(movable)))]
            kk = M.kind(v.pose)
            moved_to = M.fl(M.mkpose(kk, gen.perturb(rng, kk, M.fl(v.pose), 0.3, 0.1)))
            how = int(rng.integers(4))
            only_edge_side = how == 3  # no pose is touched this time: only edge-side data change (see below)
            if only_edge_side:
                pass
            elif how == 0:
                v.pose = M.mkpose(kk, moved_to)
            elif how == 1:
                v.pose[:] = moved_to  # written into the existing pose object: the vertex still holds the same object
            else:
                np.copyto(np.asarray(v.pose), np.array(moved_to))
            ffp2 = ffp
            if not only_edge_side and rng.random() < 0.5:
                # the set of fixed vertices differs from the previous call too (another vertex marked fixed, or fix_first_pose switched)
                others = [w for w in movable if w is not v]
                if others and rng.random() < 0.5:
                    others[int(rng.integers(len(others)))].fixed = True
                else:
                    ffp2 = not ffp
            if not only_edge_side and rng.random() < 0.4:
                # a vertex that was held fixed so far is released (and, to keep the gauge, another one is pinned instead)
                held = [w for w in g2._vertices if w.fixed]
                if held:
                    held[int(rng.integers(len(held)))].fixed = False
                    cand = [w for w in g2._vertices if not w.fixed and w is not v]
                    if cand:
                        cand[int(rng.integers(len(cand)))].fixed = True
                    ctx.count("class:fixed_vertex_released_between_calls")
            now = gen.copy_spec(spec)
            now.pop("share", None)
            if only_edge_side:
                # ... or a measurement is corrected in place
                ods = [(j, e_) for j, e_ in enumerate(g2._edges) if isinstance(e_.estimate, (M.PoseR2, M.PoseR3, M.PoseSE2)) and j < len(now["edges"]) and "est" in now["edges"][j]]
                if ods and rng.random() < 0.5:
                    j, e_ = ods[int(rng.integers(len(ods)))]
                    e_.estimate[0] = float(e_.estimate[0]) + 0.25
                    now["edges"][j]["est"] = M.fl(e_.estimate)
                    ctx.count("class:measurement_written_in_place_between_calls")
            if only_edge_side or rng.random() < 0.4:
                # a landmark edge's sensor offset is re-calibrated in place (the object may be shared with a registered parameter)
                lms = [(j, e_) for j, e_ in enumerate(g2._edges) if isinstance(e_, M.EdgeLandmark) and isinstance(getattr(e_, "offset", None), (M.PoseSE2, M.PoseSE3, M.PoseR2, M.PoseR3))]
                if lms and all(se.get("type") == ("lm" if isinstance(le, M.EdgeLandmark) else se.get("type")) for se, le in zip(now["edges"], g2._edges)):
                    j, e_ = lms[int(rng.integers(len(lms)))]
                    ko = M.kind(e_.offset)
                    new_off = M.fl(M.mkpose(ko, gen.perturb(rng, ko, M.fl(e_.offset), 0.2, 0.1)))
                    e_.offset[:] = new_off
                    for jj, (se, le) in enumerate(zip(now["edges"], g2._edges)):
                        if isinstance(le, M.EdgeLandmark) and le.offset is e_.offset and "off" in se:
                            se["off"] = list(new_off)
                    ctx.count("class:landmark_offset_written_in_place_between_calls")
            for sv, lv in zip(now["vertices"], g2._vertices):
                sv["pose"] = M.fl(lv.pose)
                sv["fixed"] = bool(lv.fixed)
            fresh = M.build(now)
            kw2 = {"tol": tol, "max_iter": min(max_iter, 6), "fix_first_pose": ffp2}
            try:
                ra = M.quiet_optimize(g2, **kw2)
                rb = M.quiet_optimize(fresh, **kw2)
                # the fresh graph is rebuilt from the printed numbers through the constructors (which may re-normalise an angle by an ulp): agreement to
                # 1e-9, chi2 additionally up to its rounding noise at that state; the stopping point only where no decision is a near tie
                from . import c05

                with np.errstate(all="ignore"):
                    noise = c05.chi2_noise(fresh) if all(math.isfinite(x) for vv in fresh._vertices for x in M.fl(vv.pose)) else 0.0

                def chi_close(a, b):
                    return same_float(a, b, 1e-9) or (a is not None and b is not None and math.isfinite(a) and math.isfinite(b) and abs(a - b) <= 4.0 * noise)
                seq_b = [rb.initial_chi2] + [r.chi2 for r in rb.iteration_results if r.chi2 is not None]
                tie = near_tie([float(x) for x in seq_b], tol, len(seq_b) - 1) or any(math.isfinite(float(x)) and abs(float(x)) <= 100.0 * noise for x in seq_b)
                same = ((tie or (ra.num_iterations == rb.num_iterations and bool(ra.converged) == bool(rb.converged))) and chi_close(ra.initial_chi2, rb.initial_chi2) and
                        (tie or chi_close(ra.final_chi2, rb.final_chi2)) and (tie or same_state(M.snapshot_poses(g2), M.snapshot_poses(fresh), 1e-9)))
                ctx.check("next-call-after-external-edit-equals-fresh-graph", same, feats, {"continued": [ra.num_iterations, ra.converged, ra.initial_chi2, ra.final_chi2],
                                                                                          "fresh": [rb.num_iterations, rb.converged, rb.initial_chi2, rb.final_chi2]}, case)
            except Exception as ex:
                ctx.count("external_edit_history_raised:" + type(ex).__name__)
    # split runs (tol=0 so that no call stops early) reproduce x_n
    n = max_iter
    if any(x < 0 for x in chi if x == x):
        # with a negative chi2 the documented rule can stop even at tol = 0 (the relative decrease changes sign): "no call stops early" does not hold
        ctx.count("split_runs_not_compared:negative_chi2_in_trace")
        return stop, conv, chi, verbose
    for parts in compositions(rng, n, ctx.tier):
        g4 = M.build(spec)
        try:
            for kk in parts:
                M.quiet_optimize(g4, max_iter=kk, tol=0.0, fix_first_pose=ffp)
        except Exception as ex:
            ctx.check("split-run-reproduces", False, dict(feats, exception=type(ex).__name__), {"parts": parts}, case)
            continue
        ctx.check("split-run-reproduces", same_state(M.snapshot_poses(g4), states[n]), feats, {"parts": parts, "n": n}, case)
    return stop, conv, chi, verbose


def run_case(ctx, i, rng):
    spec, gkind = make_graph(rng, ctx)
    tol = float(rng.choice([0.0, 1e-12, 1e-9, 1e-6, 1e-4, 1e-3, 1e-2, 1e-1, float(10 ** rng.uniform(-12, -1))]))
    max_iter = int(rng.integers(1, 13 if ctx.tier == "quick" else 31))
    ffp = bool(rng.random() < 0.7)
    if i % 6 == 0:
        # the documented defaults (tol = 1e-4, max_iter = 20, fix_first_pose = True): a call that names none of them behaves as if they had been passed
        gd = M.build(spec)
        first_fixed_before = bool(gd._vertices[0].fixed)
        try:
            res_d = M.quiet_optimize(gd)
            why_d = own_sequence_consistent(res_d, 1e-4, 20)
            if why_d is None and not bool(gd._vertices[0].fixed):
                why_d = "fix_first_pose defaults to True, but the first vertex is not fixed after the call"
            ctx.check("stopping-rule", why_d is None, {"graph_kind": gkind, "basis": "documented default arguments"},
                      {"why": why_d, "num_iterations": res_d.num_iterations, "converged": bool(res_d.converged), "first_vertex_fixed_before": first_fixed_before}, {"graph": {k: v for k, v in spec.items() if k not in ("truth", "truth_by_id")}})
            ctx.count("class:call_with_default_arguments")
        except Exception as ex:  # noqa: BLE001
            ctx.count("default_argument_call_raised:" + type(ex).__name__)
    out = report_check(ctx, rng, spec, gkind, tol, max_iter, ffp)
    if out is None:
        return
    stop, conv, chi, verbose = out
    if stop >= 2:
        ctx.nontrivial(gen.fingerprint({"spec": spec, "tol": tol, "max_iter": max_iter}))
    ctx.sample({"graph_kind": gkind, "tol": tol, "max_iter": max_iter, "chi2_trace": chi[:6], "stop_index": stop, "converged": conv, "verbose_call_first": verbose}, cap=3)


def pinned_stationary(ctx):
    """All vertices fixed: chi2 never changes, so the documented rule stops after the first iteration (exercises '<=' and '/(chi2+eps)')."""
    spec = {"vertices": [{"id": 0, "kind": "se2", "pose": [0.0, 0.0, 0.0], "fixed": True}, {"id": 1, "kind": "se2", "pose": [1.0, 0.2, 0.1], "fixed": True}],
            "edges": [{"type": "odo", "ids": [0, 1], "info": np.eye(3).tolist(), "est": [0.8, 0.0, 0.0], "est_kind": "se2"}]}
    g = M.build(spec)
    res = M.quiet_optimize(g, tol=1e-4, max_iter=5, fix_first_pose=False)
    ctx.check("stopping-rule", res.num_iterations == 1 and res.converged and len(res.iteration_results) == 2, {"graph_kind": "pinned_all_fixed", "tol_zero": False},
              {"num_iterations": res.num_iterations, "converged": res.converged}, {"graph": spec})
    ctx.nontrivial("pinned-stationary")


PINNED = [pinned_stationary]


def _dataset_case(name, nmax, tol, max_iter):
    def f(ctx):
        from .. import datasets

        if not datasets.available(name):
            ctx.skip("dataset file missing: " + name)
            return
        rng = np.random.default_rng([12, nmax])
        spec = datasets.load_spec(name, nmax)
        try:
            report_check(ctx, rng, spec, "dataset:" + name, tol, max_iter, True)
        except Skip as sk:
            ctx.skip("dataset %s: %s" % (name, sk.reason))
        ctx.count("dataset:" + name)
        ctx.nontrivial("dataset-%s-%d" % (name, nmax))
    return f


DATASET_CASES = [_dataset_case("intel", 400, 1e-4, 8), _dataset_case("garage", 300, 1e-4, 8), _dataset_case("intel", 150, 1e-2, 4), _dataset_case("garage", 100, 0.0, 3)]


def extra_stage(tier, seed, tmp):
    """thorough tier: the repository's own test-suite as a workload under this property's monitors (every Graph.optimize / Graph.from_g2o call)."""
    if tier != "thorough":
        return None
    from ..runner import suite_under_monitors

    return suite_under_monitors("C12", seed, tmp)
