"""C02 - edge errors and chi^2 implement the documented measurement model.

Monitor: post-conditions on calc_error / calc_chi2 of every edge and on Graph.calc_chi2.
Oracle: independent Hamilton/matrix reference model; chi2 = e^T Omega e; graph chi2 = sum; derived relations
(zero iff consistent, non-negative for PSD information, linear in Omega).
"""
import math

import numpy as np

from .. import gen, model as M, oracles as O, refmodel as R

RULE = ("cases from rng(seed, 2, 0, i): a random graph of 1..40 edges over r2/r3/se2/se3 vertices (odometry + landmark edges with rotated "
        "offsets, hostile values: w<0 / w=0 quaternions, angles at +-pi, translations up to 1e4 (1e6 thorough), dense ill-conditioned or "
        "singular PSD information, scaled by 1e-14..1e12); every edge's calc_error/calc_chi2 and the graph's calc_chi2 are compared with the reference model; "
        "every 4th case is a consistent graph (measurements generated from the vertices by the reference model) checked for chi2=0 and "
        "chi2>0 after perturbing one measurement; every 5th checks linearity in Omega on twin edges; every 8th case is an operand history on one live edge (estimate / pose / offset / information replaced or modified in place between calls). distinct = fingerprint of the spec; "
        "non-trivial = chi2 above 1e3 x rounding bound, or a consistent graph with >=3 edges."
        " later additions: sparse / singular / indefinite information (negative coefficients in the linearity check), graph chi2 vs the sum of each edge's own calc_chi2() incl. an overriding edge class, chi2 after optimize() followed by an external move.")
REQ = ["eval:error-vs-reference", "eval:information-stored-as-given", "eval:chi2-vs-eT-Omega-e", "eval:graph-chi2-is-sum", "eval:optimize-initial-chi2-is-graph-chi2", "eval:consistent-graph-chi2-zero", "eval:perturbed-measurement-chi2-positive",
       "eval:chi2-linear-in-Omega", "eval:chi2-nonnegative-psd", "kind:odo-se3", "kind:lm-se3", "kind:lm-se2", "kind:lm-r2", "class:info:cross", "class:info:tiny_scale", "class:info:huge_scale", "class:q:wneg", "class:landmark_offset_rotated", "history_steps", "class:info:integer_dtype", "class:edges_prebound_to_stale_vertices", "class:graph_with_4000+_edges", "class:chi2_after_optimize_then_external_move", "class:info:sparse:zero_rows_and_blocks", "class:info:negative_coefficient(indefinite information)", "class:edge_overriding_calc_chi2_in_graph_sum"]
PLAN = {
    "quick": {"cases": 6000, "soft_s": 60, "min_nontrivial": 1000, "require": REQ},
    "thorough": {"cases": 120000, "soft_s": 1100, "min_nontrivial": 10000, "require": REQ},
}
ASSUMPTIONS = ["SE(3) operands are unit quaternions; rotational SE(3) error compared up to the common sign of the error quaternion (q and -q are the same rotation)"]


def hostile_graph(rng, maxexp, labels, consistent=False, nmax=40):
    fam = rng.choice(["2d", "3d", "all"])
    pose_kinds = {"2d": ["se2", "r2"], "3d": ["se3", "r3"], "all": list(R.KINDS)}[fam]
    nv = int(rng.integers(2, 12))
    vertices = []
    for i in range(nv):
        k = str(rng.choice(pose_kinds))
        p, l = gen.pose(rng, k, maxexp)
        labels |= l
        vertices.append({"id": i * 3 - 5, "kind": k, "pose": p, "fixed": False})
    # make sure every pose kind has a possible partner
    bykind = {}
    for v in vertices:
        bykind.setdefault(v["kind"], []).append(v)
    edges = []
    ne = int(rng.integers(1, nmax + 1))
    live = {v["id"]: gen.normalize_pose(v["kind"], M.fl(M.mkpose(v["kind"], v["pose"]))) for v in vertices}
    for _ in range(ne * 3):
        if len(edges) >= ne:
            break
        a = vertices[int(rng.integers(nv))]
        k = a["kind"]
        if rng.random() < 0.5:
            cands = [v for v in bykind[k] if v is not a]
            if not cands:
                continue
            b = cands[int(rng.integers(len(cands)))]
            if consistent:
                z = gen.normalize_pose(k, R.vals(R.ominus(k, live[b["id"]], live[a["id"]])))
                if k == "se3" and rng.random() < 0.5:
                    z = z[:3] + [-x for x in z[3:]]
            else:
                z, l = gen.pose(rng, k, maxexp)
                labels |= l
            info, li = gen.info(rng, R.CD[k], 1e8, scale_exp=3.0, psd=(not consistent and rng.random() < 0.15), extreme_scale=True)
            labels |= li
            edges.append({"type": "odo", "ids": [a["id"], b["id"]], "info": info.tolist(), "est": z, "est_kind": k})
            labels.add("kind:odo-" + k)
        else:
            kp = R.POINT_OF[k]
            cands = [v for v in bykind.get(kp, []) if v is not a]
            if not cands:
                continue
            b = cands[int(rng.integers(len(cands)))]
            off, lo = gen.pose(rng, k, min(3.0, maxexp))
            if rng.random() < 0.2:
                off = R.identity(k)
            elif k in ("se2", "se3"):
                labels.add("landmark_offset_rotated")
            offl = gen.normalize_pose(k, M.fl(M.mkpose(k, off)))
            if consistent:
                z = R.vals(R.act(k, R.inv(k, R.oplus(k, live[a["id"]], offl)), live[b["id"]]))
            else:
                z, l = gen.pose(rng, kp, maxexp)
            info, li = gen.info(rng, R.CD[kp], 1e8, scale_exp=3.0, psd=(not consistent and rng.random() < 0.15), extreme_scale=True)
            labels |= li
            edges.append({"type": "lm", "ids": [a["id"], b["id"]], "info": info.tolist(), "est": z, "est_kind": kp, "off": off, "off_kind": k, "off_id": 0})
            labels.add("kind:lm-" + k)
    if not edges:
        return None
    for e in edges:
        if rng.random() < 0.05:
            # whole-number information handed over as an integer array
            n0 = len(e["info"])
            A = rng.integers(-2, 3, size=(n0, n0))
            e["info"] = (A @ A.T + np.diag(rng.integers(1, 5, size=n0))).astype(int).tolist()
            e["info_dtype"] = "int"
            labels.add("info:integer_dtype")
    out = {"vertices": vertices, "edges": edges}
    if rng.random() < 0.1:
        out["prebind_stale"] = True
        labels.add("edges_prebound_to_stale_vertices")
    return out


def history_case(ctx, i, rng):
    from . import c01

    typ, k = c01.EDGE_KINDS[(i // 8) % len(c01.EDGE_KINDS)]
    e, spec = c01.make_edge(rng, typ, k, 3.0, set())
    hist = []
    for step in range(int(rng.integers(3, 7))):
        with np.errstate(all="ignore"):
            e.calc_error()
            e.calc_chi2()
        if rng.random() < 0.2:
            e.information = gen.info(rng, np.asarray(e.information).shape[0], 1e4, scale_exp=2.0)[0]
            hist.append("information:replace")
        else:
            hist.append(c01.mutate_operand(rng, e))
        case = {"edge": spec, "history": list(hist), "poses": [M.fl(v.pose) for v in e.vertices], "estimate": M.fl(e.estimate)}
        O.check_edge_error(ctx, e, "history", case=case)
        ctx.count("history_steps")
    ctx.nontrivial(gen.fingerprint({"spec": spec, "hist": hist}))


def big_graph_case(ctx, rng):
    """One large pure SE(2) odometry graph per run (thousands of edges, headings on both sides of +-pi): count-dependent code paths."""
    nv = 1500
    ne = int(rng.integers(4200, 5200))
    vertices = [{"id": j, "kind": "se2", "pose": [float(x) for x in rng.normal(size=2) * 20] + [float(rng.choice([-1, 1]) * (math.pi - abs(rng.normal()) * 0.3)) if rng.random() < 0.5
                                                                                               else float(rng.uniform(-3.1, 3.1))], "fixed": False} for j in range(nv)]
    edges = []
    for _ in range(ne):
        a, b = rng.choice(nv, 2, replace=False)
        z = [float(x) for x in rng.normal(size=2) * 5] + [float(rng.uniform(-3.1, 3.1))]
        edges.append({"type": "odo", "ids": [int(a), int(b)], "info": gen.spd(rng, 3, 50.0, True).tolist(), "est": z, "est_kind": "se2"})
    spec = {"vertices": vertices, "edges": edges}
    g = M.build(spec)
    tot, bound = 0.0, 0.0
    for e in g._edges:
        er = M.edge_ref_error(e)
        if abs(abs(er[2]) - math.pi) < 1e-9:
            continue
        Om = np.asarray(e.information, dtype=float)
        tot += float(er @ Om @ er)
        bound += O.chi2_bound(er, Om, O.edge_scale(e))
    with np.errstate(all="ignore"):
        c = float(g.calc_chi2())
    ctx.close("graph-chi2-is-sum", c, tot, bound + 8 * ne * R.EPS * abs(tot), {"edges": ne, "kind": "large pure SE(2) odometry graph"}, None, {"n_edges": ne, "n_vertices": nv})
    ctx.count("class:graph_with_4000+_edges")
    ctx.nontrivial("big-%d" % ne)


def run_case(ctx, i, rng):
    if i == 5:
        return big_graph_case(ctx, rng)
    if i % 8 == 7:
        return history_case(ctx, i, rng)
    maxexp = 4.0 if ctx.tier == "quick" else 6.0
    labels = set()
    consistent = (i % 4 == 3)
    spec = hostile_graph(rng, maxexp if not consistent else 2.0, labels, consistent=consistent)
    if spec is None:
        ctx.skip("generator produced no edge")
        return
    g = M.build(spec)
    for lab in labels:
        ctx.count(lab if lab.startswith("kind:") else "class:" + lab)
    case = {"graph": spec}
    tot_ref = 0.0
    tot_bound = 0.0
    all_in = True
    scale = 1.0
    for e, es in zip(g._edges, spec["edges"]):
        # the information matrix the edge works with is the one it was given (same values, double precision)
        given = np.array(es["info"], dtype=np.float64)
        live = np.asarray(e.information)
        given_dtype = np.int64 if es.get("info_dtype") == "int" else np.float64
        ctx.check("information-stored-as-given", live.shape == given.shape and np.array_equal(live.astype(np.float64), given) and live.dtype in (np.float64, given_dtype), O.edge_features(e),
                  {"dtype": str(live.dtype), "max_abs_diff": float(np.abs(live.astype(np.float64) - given).max()) if live.shape == given.shape else None}, case)
        r = O.check_edge_error(ctx, e, "graph-edge", case=case)
        if r is None:
            all_in = False
            continue
        c_real, c_ref, b = r
        tot_ref += c_ref
        tot_bound += b
        Om = np.asarray(e.information)
        ev_min = float(np.linalg.eigvalsh((Om + Om.T) / 2).min())
        if ev_min >= -1e-12 * np.abs(Om).max():
            ctx.check("chi2-nonnegative-psd", c_real >= -b, O.edge_features(e), {"chi2": c_real, "bound": b}, case)
    if not all_in:
        return
    with np.errstate(all="ignore"):
        c_graph = float(g.calc_chi2())
    ne = len(g._edges)
    ctx.close("graph-chi2-is-sum", c_graph, tot_ref, tot_bound + 8 * ne * R.EPS * abs(tot_ref), {"edges": ne}, None, case)
    if i % 3 == 0 and ne <= 25:
        # the chi2 that optimize() reports for the initial state is the same sum over all edges, whatever the fixed flags
        # (edges between two fixed vertices included)
        spec_o = gen.copy_spec(spec)
        nfix = 0
        for v in spec_o["vertices"]:
            if rng.random() < 0.5:
                v["fixed"] = True
                nfix += 1
        go = M.build(spec_o)
        try:
            res = M.quiet_optimize(go, max_iter=1, tol=0.0, fix_first_pose=bool(rng.random() < 0.5))
            ctx.close("optimize-initial-chi2-is-graph-chi2", float(res.initial_chi2), tot_ref, tot_bound + 8 * ne * R.EPS * abs(tot_ref), {"edges": ne, "n_fixed": nfix}, None,
                      {"graph": spec_o})
            # history: after that optimize() call the poses change by another route (assigned / written in place); the graph's chi2 is the sum over
            # its edges at the *current* estimates (each edge's own chi2 is judged against the reference elsewhere in this check)
            free_v = [v for v in go._vertices if all(math.isfinite(x) for x in M.fl(v.pose))]
            if free_v:
                v = free_v[int(rng.integers(len(free_v)))]
                kk = M.kind(v.pose)
                moved_to = M.fl(M.mkpose(kk, gen.perturb(rng, kk, M.fl(v.pose), 0.5, 0.2)))
                if rng.random() < 0.5:
                    v.pose = M.mkpose(kk, moved_to)
                else:
                    v.pose[:] = moved_to
                with np.errstate(all="ignore"):
                    parts = [float(e.calc_chi2()) for e in go._edges]
                    cg = float(go.calc_chi2())
                if all(math.isfinite(x) for x in parts):
                    tot = math.fsum(parts)
                    ctx.close("graph-chi2-is-sum", cg, tot, 64 * ne * R.EPS * math.fsum(abs(x) for x in parts) + 1e-300, {"edges": ne, "history": "optimize(), then a pose moved from outside"}, None, {"graph": spec_o})
                    ctx.count("class:chi2_after_optimize_then_external_move")
        except Exception as ex:
            ctx.count("optimize_raised_in_chi2_report_subcheck:" + type(ex).__name__)
    if consistent:
        ctx.close("consistent-graph-chi2-zero", c_graph, 0.0, tot_bound, {"edges": ne}, {"chi2": c_graph}, case)
        # perturb one measurement by a visible amount: chi2 must become clearly positive (all information PD here)
        j = int(rng.integers(ne))
        spec2 = gen.copy_spec(spec)
        e2 = spec2["edges"][j]
        comp = int(rng.integers(len(e2["est"]) if e2["est_kind"] != "se3" else 3))
        delta = 0.37
        e2["est"][comp] += delta
        g2 = M.build(spec2)
        Om = np.asarray(e2["info"])
        lam_min = float(np.linalg.eigvalsh(Om).min())
        c2 = float(g2.calc_chi2())
        c2_edge = float(g2._edges[j].calc_chi2())
        # e changes by a vector of norm ~delta (rotated); chi2_edge >= lam_min * |e|^2 ; |e| >= 0.5*delta unless the angle wraps.
        # (decided on the perturbed edge's own chi2: other edges may carry information 1e20 times larger, whose rounding residue would swamp it in the sum)
        ctx.check("perturbed-measurement-chi2-positive", c2_edge >= 0.2 * lam_min * delta * delta and c2 >= c2_edge - tot_bound, {"edge": e2["type"], "kind": e2["est_kind"]},
                  {"chi2_after": c2, "chi2_edge_after": c2_edge, "lam_min": lam_min, "component": comp}, {"graph": spec2})
        if ne >= 3:
            ctx.nontrivial(gen.fingerprint(spec))
    else:
        if abs(c_graph) > 1e3 * tot_bound:
            ctx.nontrivial(gen.fingerprint(spec))
    if i % 6 == 1:
        # dynamic dispatch: the graph's chi2 is the sum of what each edge's *own* calc_chi2() returns (an edge class may override it - weighted / robust costs)
        from .. import custom

        v0 = g._vertices[int(rng.integers(len(g._vertices)))]
        nt = {"r2": 2, "r3": 3, "se2": 2, "se3": 3}[M.kind(v0.pose)]
        if all(math.isfinite(x) for x in M.fl(v0.pose)):
            re = custom.RobustPositionPrior([v0.id], np.eye(nt) * 4.0, np.array([x + 1.5 for x in M.fl(v0.pose)[:nt]]))
            g_r = M.Graph(list(g._edges) + [re], list(g._vertices))
            with np.errstate(all="ignore"):
                parts = [float(e_.calc_chi2()) for e_ in g_r._edges]
                cg = float(g_r.calc_chi2())
            if all(math.isfinite(x) for x in parts):
                ctx.close("graph-chi2-is-sum", cg, math.fsum(parts), 64 * len(parts) * R.EPS * math.fsum(abs(x) for x in parts) + 1e-300,
                          {"edges": len(parts), "with_edge_overriding_calc_chi2": True}, None, case)
                ctx.count("class:edge_overriding_calc_chi2_in_graph_sum")
            # (the extra graph re-bound the shared edge objects to the same vertex objects: nothing to restore)
    if i % 5 == 0:
        # linearity in Omega on twin edges
        j = int(rng.integers(ne))
        e = g._edges[j]
        n = np.asarray(e.information).shape[0]
        O1, _ = gen.info(rng, n, 1e4, scale_exp=2.0, extreme_scale=True)
        O2, _ = gen.info(rng, n, 1e4, scale_exp=2.0, extreme_scale=True)
        a, b = float(10 ** rng.uniform(-2, 2)), float(10 ** rng.uniform(-2, 2))
        if rng.random() < 0.4:
            # linear means linear: negative coefficients too (a difference of two information matrices is symmetric but indefinite; the quadratic
            # form e^T Omega e is then negative for some errors - the documented formula has no clamp)
            b = -b
            if rng.random() < 0.5:
                a = -a
            ctx.count("class:info:negative_coefficient(indefinite information)")
        keep = e.information
        vals = []
        with np.errstate(all="ignore"):
            for Om in (O1, O2, a * O1 + b * O2):
                e.information = Om
                vals.append(float(e.calc_chi2()))
        e.information = keep
        s = O.edge_scale(e)
        er = M.edge_ref_error(e)
        bound = abs(a) * O.chi2_bound(er, O1, s) + abs(b) * O.chi2_bound(er, O2, s) + O.chi2_bound(er, a * O1 + b * O2, s)
        ctx.close("chi2-linear-in-Omega", vals[2], a * vals[0] + b * vals[1], bound, O.edge_features(e), {"a": a, "b": b}, case)
    ctx.sample({"vertices": spec["vertices"][:3], "edges": [{k: v for k, v in e.items() if k != "info"} for e in spec["edges"][:2]], "n_edges": ne, "consistent": consistent}, cap=2)


def extra_stage(tier, seed, tmp):
    """thorough tier: the repository's own test-suite as a workload under this property's monitors."""
    if tier != "thorough":
        return None
    from ..runner import suite_under_monitors

    return suite_under_monitors("C02", seed, tmp)


def _dataset_case(name, augment):
    def f(ctx):
        from .. import datasets

        if not datasets.available(name):
            ctx.skip("dataset file missing: " + name)
            return
        rng = np.random.default_rng([2, int(augment)])
        spec = datasets.load_spec(name, 600)
        if augment:
            spec = datasets.augment_with_landmarks(rng, spec, 40)
        g = M.build(spec)
        for stage in ("initial", "after one iteration"):
            edges = list(g._edges)
            for j in rng.permutation(len(edges))[:700]:
                e = edges[int(j)]
                O.check_edge_error(ctx, e, 'dataset:' + name)
            try:
                M.quiet_optimize(g, max_iter=1, tol=0.0)
            except Exception as ex:
                ctx.count("dataset_optimizer_exception:" + type(ex).__name__)
                break
        ctx.count("dataset:" + name + (":augmented" if augment else ""))
        ctx.nontrivial("dataset-%s-%s" % (name, augment))
    return f


DATASET_CASES = [_dataset_case("intel", False), _dataset_case("intel", True), _dataset_case("garage", False), _dataset_case("garage", True)]
