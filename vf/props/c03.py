"""C03 - one optimizer iteration is exactly the Gauss-Newton step.

Events: vertex poses before/after Graph.optimize(max_iter=1, tol=0); (H, rhs, dx) at the solver boundary.
Oracle: dense reduced normal equations assembled from the real edges' own errors and Jacobians (isolates
accumulation / fixed-vertex handling / solve / boxplus update from C01), applied increment extracted with the
reference model.
"""
import math

import numpy as np

from .. import gen, model as M, refmodel as R
from ..monitors import SolverSpy
from ..runner import Skip

RULE = ("cases from rng(seed, 3, 0, i): well-posed cluster graphs (1-4 clusters of r2/r3/se2/se3 poses, 2-6 (thorough: up to 12) poses each, spanning "
        "tree + loop + parallel odometry edges in either vertex order, landmarks with rotated offsets, custom unary/binary/ternary edges with "
        "numerical or AD Jacobians, dense SPD information with cross terms, shuffled vertex/edge lists, ids negative/sparse/2^62/2^64, several "
        "fixed vertices, initial poses sharing one pose object / numpy array) x fix_first_pose in {True, False}; one real iteration vs the dense reduced Gauss-Newton step; an eighth of the graphs start within 1e-12..1e-7 (relative) of their optimum (tiny but non-zero steps); every 4th case adds a second call on the same objects after a vertex was newly fixed / information changed, compared with a fresh graph in the same state. distinct = fingerprint "
        "of the spec; non-trivial = at least one free vertex moved by more than 1e-6 and cond(H_reduced) <= 1e10."
        " later additions: sparse information patterns, starts within 1e-12..1e-7 of the optimum, up to 32 single-step calls, second calls after a converged first call with replaced measurements / in-place pose or offset writes / re-targeted edges.")
REQ = ["eval:gn-step-applied", "eval:fixed-vertex-zero-increment", "eval:solver-boundary-H", "eval:solver-boundary-rhs", "class:parallel_edges", "class:edge_high_index_first",
       "class:mixed_dimensions", "class:custom_unary", "class:custom_ternary", "class:custom_numeric_jacobian", "class:fix_first_pose=True", "class:fix_first_pose=False",
       "class:several_fixed_per_cluster", "class:landmark_offset_rotated", "class:shared_pose_storage", "class:exact_special_values", "class:second_call_after_edits", "eval:second-call-equals-fresh-graph", "class:fixed_flags_as_int", "class:landmark_offset_zero_translation_rotated", "eval:K-iterations-equal-K-single-steps", "class:information_scales:per_edge",
       "class:information_scales:all_tiny", "class:graph_with_100+_vertices", "class:evaluated_then_moved_in_place", "class:edges_prebound_to_stale_vertices", "class:start_within_1e-7_of_the_optimum", "class:information_sparse:zero_rows_and_blocks", "class:information_sparse:offdiagonals_cancel_in_sum", "class:second_call_after_a_converged_first_call", "class:edge_retargeted_between_calls"]
PLAN = {
    "quick": {"cases": 1600, "soft_s": 70, "min_nontrivial": 400, "require": REQ},
    "thorough": {"cases": 60000, "soft_s": 1200, "min_nontrivial": 10000, "require": REQ},
}
ASSUMPTIONS = ["well-posed graphs only (every connected component holds a fixed pose); cond(H_reduced) > 1e10, rotation increments of norm > 1 "
               "(the repository's boxplus clamps them) and non-finite values are counted as inconclusive; self-loop edges are not driven"]


def one_step_check(ctx, spec, labels, ffp, case, monitor_prefix="", cond_max=1e10, inplace_rng=None):
    g = M.build(spec)
    verts = g._vertices
    if inplace_rng is not None:
        # history: the graph is evaluated once, then its free vertices are moved by writing into the existing pose arrays; the step must be the
        # Gauss-Newton step at the *current* values (nothing cached on object identity may survive)
        with np.errstate(all="ignore"):
            g.calc_chi2()
            for e in g._edges:
                try:
                    e.calc_jacobians()
                except Exception:
                    pass
        for v in verts:
            if not v.fixed:
                k0 = M.kind(v.pose)
                v.pose[:] = M.fl(M.mkpose(k0, gen.perturb(inplace_rng, k0, M.fl(v.pose), 0.2, 0.1)))
        labels.add("evaluated_then_moved_in_place")
    if not ctx.check(monitor_prefix + "edges-linked-to-the-listed-vertices", M.edges_linked_to_graph(g), {"prebound": bool(spec.get("prebind_stale"))},
                     {"note": "an edge is attached to Vertex objects that are not this graph's"}, case):
        return False
    fixed_before = [bool(v.fixed) for v in verts]
    fixed_ids = {id(v) for v in verts if v.fixed}
    if ffp:
        fixed_ids.add(id(verts[0]))
    before = M.snapshot_poses(g)
    kinds = [M.kind(v.pose) for v in verts]
    with np.errstate(all="ignore"):
        H, b, chi, idx, n = M.assemble(g, "real")
    free = M.free_mask(g, n, idx, fixed_ids)
    dx_ref, cond = M.reduced_step(H, b, free)
    if dx_ref is None or cond > cond_max or not np.all(np.isfinite(dx_ref)):
        raise Skip("cond(H_reduced) > %.0e or singular" % cond_max)
    for v, k in zip(verts, kinds):
        if k == "se3":
            i0 = idx[id(v)]
            if np.linalg.norm(dx_ref[i0 + 3:i0 + 6]) > 0.9:
                raise Skip("rotation increment > 0.9 (boxplus clamp domain)")
    dx_ad = None
    if inplace_rng is not None:
        # after an in-place history the edges' own e / J might both be stale in the same way: cross-check with the independent assembly (reference errors, AD Jacobians)
        try:
            Hr, br, _, _, _ = M.assemble(g, "ref")
            dx_ad, cond_ad = M.reduced_step(Hr, br, free)
        except Exception:
            dx_ad = None
        # the true derivative exists only in the smooth domain of every edge: a distance / range edge between two coinciding positions (vertices
        # sharing one storage are moved together by the in-place writes) has no derivative there; only the edges' own Jacobians are then compared
        for e in g._edges:
            if type(e).__name__ in ("DistanceEdge", "RangeEdge"):
                pa, pb = np.asarray(e.vertices[0].pose.position, dtype=float), np.asarray(e.vertices[1].pose.position, dtype=float)
                if float(np.linalg.norm(pa - pb)) < 0.2:
                    dx_ad = None
                    ctx.count("independent_assembly_skipped:distance_edge_at_its_singularity")
        if dx_ad is not None and not np.all(np.isfinite(dx_ad)):
            dx_ad = None
    with SolverSpy() as spy:
        try:
            M.quiet_optimize(g, max_iter=1, tol=0.0, fix_first_pose=ffp)
        except Exception as ex:
            ctx.check(monitor_prefix + "gn-step-applied", False, {"exception": type(ex).__name__, "fix_first_pose": ffp}, {"message": str(ex)[:300]}, case)
            return False
    after = M.snapshot_poses(g)
    tol = 200 * R.EPS * max(cond, 1.0)
    moved = 0.0
    ok = True
    for j, (v, k) in enumerate(zip(verts, kinds)):
        i0 = idx[id(v)]
        c = R.CD[k]
        d_ref = dx_ref[i0:i0 + c]
        if not all(math.isfinite(x) for x in after[j]):
            ok &= ctx.check(monitor_prefix + "gn-step-applied", False, {"why": "non-finite pose after a well-posed step", "kind": k, "fixed": id(v) in fixed_ids},
                            {"vertex": j, "after": after[j], "cond": cond}, case)
            continue
        d_app = np.array(M.applied_increment(k, before[j], after[j]))
        scale = max(1.0, float(np.abs(dx_ref).max()), R.tmag(k, before[j]))
        if id(v) in fixed_ids:
            same = all((x == y) or abs(x - y) <= 4 * R.EPS * max(1.0, abs(x)) for x, y in zip(before[j], after[j]))
            ok &= ctx.check(monitor_prefix + "fixed-vertex-zero-increment", same, {"kind": k, "fix_first_pose": ffp, "first_listed": j == 0},
                            {"vertex": j, "before": before[j], "after": after[j]}, case)
            continue
        diff = np.abs(d_app - d_ref)
        if k == "se2":
            diff[2] = R.ang_diff(d_app[2], d_ref[2])
        feats = {"kind": k, "fix_first_pose": ffp}
        with np.errstate(all="ignore"):
            ctx.margin(monitor_prefix + "gn-step-applied", float(diff.max() / (tol * scale)))
        ok &= ctx.check(monitor_prefix + "gn-step-applied", bool(np.all(diff <= tol * scale)), feats,
                        {"vertex": j, "applied": d_app, "expected": d_ref, "tol": tol * scale, "cond": cond, "labels": sorted(labels)}, case)
        moved = max(moved, float(np.abs(d_ref).max()))
        if dx_ad is not None:
            da = dx_ad[i0:i0 + c]
            diff2 = np.abs(d_app - da)
            if k == "se2":
                diff2[2] = R.ang_diff(d_app[2], da[2])
            tol2 = 1e4 * tol * scale + 1e-9
            if any(getattr(e, "numeric", False) for e in g._edges):
                tol2 = max(tol2, 1e-4 * scale * max(cond, 1.0) ** 0.5)  # numerically differentiated custom edges: Jacobians accurate to ~1e-6 only
            ok &= ctx.check(monitor_prefix + "gn-step-applied(independent assembly)", bool(np.all(diff2 <= tol2)), dict(feats, history="evaluated, then moved in place"),
                            {"vertex": j, "applied": d_app, "expected": da, "tol": tol2}, case)
    # fixed flags: exactly the ones fixed before (plus the first listed one when asked)
    flags_after = [bool(v.fixed) for v in verts]
    expect_flags = [fb or (ffp and j == 0) for j, fb in enumerate(fixed_before)]
    ok &= ctx.check(monitor_prefix + "fixed-flags", flags_after == expect_flags, {"fix_first_pose": ffp}, {"before": fixed_before, "after": flags_after}, case)
    # solver boundary (supplementary: inconclusive if the boundary is not crossed)
    if spy.calls == 0:
        ctx.count("solver_boundary_not_crossed")
    else:
        Hs, rhs, dxs = spy.records[0]
        # locate each vertex's block through the layout the implementation itself chose (v.gradient_index); the layout is
        # not part of the property, so an unexpected one makes this supplementary sub-check inconclusive, not violated
        perm = np.full(n, -1)
        layout_ok = True
        for v, k in zip(verts, kinds):
            gi = getattr(v, "gradient_index", None)
            if not isinstance(gi, (int, np.integer)) or gi < 0 or gi + R.CD[k] > n:
                layout_ok = False
                break
            perm[idx[id(v)]: idx[id(v)] + R.CD[k]] = np.arange(gi, gi + R.CD[k])
        if not layout_ok or sorted(perm.tolist()) != list(range(n)):
            ctx.count("solver_boundary_layout_unknown")
        elif Hs is not None and Hs.shape == H.shape:
            Hs = Hs[np.ix_(perm, perm)]
            rhs = np.asarray(rhs)[perm]
            Hexp = np.zeros_like(H)
            Hexp[np.ix_(free, free)] = H[np.ix_(free, free)]
            fx = ~free
            Hexp[fx, fx] = 1.0
            ht = 200 * R.EPS * max(1.0, float(np.abs(H).max()))
            ok &= ctx.close(monitor_prefix + "solver-boundary-H", Hs, Hexp, ht, {"fix_first_pose": ffp}, {"labels": sorted(labels)}, case)
            rexp = np.where(free, -b, 0.0)
            babs = M.LAST_ABS.get("babs")
            bt = 200 * R.EPS * max(1.0, float(np.abs(b).max()), float(babs.max()) if babs is not None and len(babs) == len(b) else 0.0)
            ok &= ctx.close(monitor_prefix + "solver-boundary-rhs", rhs, rexp, bt, {"fix_first_pose": ffp}, None, case)
        else:
            ctx.check(monitor_prefix + "solver-boundary-H", False, {"why": "shape"}, {"shape": None if Hs is None else Hs.shape, "expected": H.shape}, case)
    return ok, moved, cond


def second_call_check(ctx, spec, labels, rng, case):
    """History: one optimize() call, then fixed flags / information changed on the same objects, then a second call: the second call must be
    exactly the Gauss-Newton step of the *current* problem (compared with a fresh graph in the same state through one_step_check's oracle)."""
    g = M.build(spec)
    to_convergence = bool(rng.random() < 0.5)
    try:
        if to_convergence:
            r0 = M.quiet_optimize(g, max_iter=30, tol=1e-9, fix_first_pose=False)
            if r0.converged:
                ctx.count("class:second_call_after_a_converged_first_call")
        else:
            M.quiet_optimize(g, max_iter=1, tol=0.0, fix_first_pose=False)
    except Exception:
        raise Skip("first call raised")
    edits = []
    free_v = [v for v in g._vertices if not v.fixed]
    if len(free_v) > 1 and rng.random() < 0.6:
        free_v[int(rng.integers(len(free_v)))].fixed = True
        edits.append("vertex newly fixed")
    for e in g._edges:
        u = rng.random()
        if u < 0.3:
            e.information = e.information * float(10 ** rng.uniform(-1, 1))
            edits.append("information replaced")
        elif u < 0.5 and isinstance(e.estimate, M.BasePose):
            ke = M.kind(e.estimate)
            e.estimate = M.mkpose(ke, gen.perturb(rng, ke, M.fl(e.estimate), 0.3, 0.1))
            edits.append("measurement replaced")
    if rng.random() < 0.4:
        fv = [v for v in g._vertices if not v.fixed and all(math.isfinite(x) for x in M.fl(v.pose))]
        if fv:
            v = fv[int(rng.integers(len(fv)))]
            kv = M.kind(v.pose)
            v.pose[:] = M.fl(M.mkpose(kv, gen.perturb(rng, kv, M.fl(v.pose), 0.3, 0.1)))
            edits.append("pose written in place")
    now = gen.copy_spec(spec)
    now.pop("share", None)
    if rng.random() < 0.3:
        # an odometry edge is re-targeted: it now constrains another vertex of the same type (its public vertex_ids / vertices attributes are updated
        # consistently); the number of edges, the vertices and the fixed flags stay what they were
        cands = [(j, e) for j, e in enumerate(g._edges) if type(e) is M.EdgeOdometry and now["edges"][j].get("type") == "odo"]
        if cands:
            j, e = cands[int(rng.integers(len(cands)))]
            kk = M.kind(e.vertices[1].pose)
            others = [w for w in g._vertices if M.kind(w.pose) == kk and w is not e.vertices[0] and w is not e.vertices[1]]
            if others:
                w = others[int(rng.integers(len(others)))]
                e.vertex_ids = [e.vertex_ids[0], w.id]
                e.vertices = [e.vertices[0], w]
                now["edges"][j]["ids"] = [now["edges"][j]["ids"][0], w.id if not isinstance(w.id, np.integer) else int(w.id)]
                edits.append("edge re-targeted")
                ctx.count("class:edge_retargeted_between_calls")
    if rng.random() < 0.3:
        lms = [(j, e) for j, e in enumerate(g._edges) if isinstance(e, M.EdgeLandmark) and isinstance(getattr(e, "offset", None), M.BasePose) and "off" in now["edges"][j]]
        if lms:
            j, e = lms[int(rng.integers(len(lms)))]
            ko = M.kind(e.offset)
            new_off = M.fl(M.mkpose(ko, gen.perturb(rng, ko, M.fl(e.offset), 0.2, 0.1)))
            e.offset[:] = new_off
            for se, le in zip(now["edges"], g._edges):
                if isinstance(le, M.EdgeLandmark) and le.offset is e.offset and "off" in se:
                    se["off"] = list(new_off)
            edits.append("offset written in place")
    for v, lv in zip(now["vertices"], g._vertices):
        v["pose"] = M.fl(lv.pose)
        v["fixed"] = bool(lv.fixed)
    for e, le in zip(now["edges"], g._edges):
        e["info"] = np.asarray(le.information).tolist()
        if isinstance(le.estimate, M.BasePose):
            e["est"] = M.fl(le.estimate)
    if not all(math.isfinite(x) for v in now["vertices"] for x in v["pose"]):
        raise Skip("non-finite state after the first call")
    fresh = M.build(now)
    try:
        M.quiet_optimize(g, max_iter=1, tol=0.0, fix_first_pose=False)
        M.quiet_optimize(fresh, max_iter=1, tol=0.0, fix_first_pose=False)
    except Exception as ex:
        ctx.check("second-call-equals-fresh-graph", False, {"exception": type(ex).__name__}, {"edits": edits}, case)
        return
    a, b = M.snapshot_poses(g), M.snapshot_poses(fresh)
    same = all(len(p) == len(q) and all((x == y) or (x != x and y != y) or abs(x - y) <= 1e-9 * max(1.0, abs(x)) for x, y in zip(p, q)) for p, q in zip(a, b))
    ctx.check("second-call-equals-fresh-graph", same, {"history": "second call after edits"}, {"edits": sorted(set(edits))}, dict(case, edits=edits))
    # and the fresh graph's step is the Gauss-Newton step of the current problem (black-box oracle)
    one_step_check(ctx, now, labels | {"second_call"}, False, dict(case, stage="second call"))
    ctx.count("class:second_call_after_edits")


def run_case(ctx, i, rng):
    ffp = bool(i % 2)
    big = ctx.tier == "thorough" and rng.random() < 0.3
    wide = bool(rng.random() < 0.25)
    large = bool(rng.random() < 0.02)  # now and then a graph with a hundred or more vertices (count-dependent code paths)
    if large:
        ctx.count("class:graph_with_100+_vertices")
    if ffp and rng.random() < 0.5:
        k = str(rng.choice(R.KINDS))
        spec, labels = gen.cluster_graph(rng, kinds=[k], size=((30, 60) if large else (2, 12 if big else 6)), fix_mode="first", alias=bool(rng.random() < 0.25), special=bool(rng.random() < 0.3), wide_info=wide)
        labels.add("only_first_pose_fixed")
    else:
        spec, labels = gen.cluster_graph(rng, size=((30, 60) if large else (2, 12 if big else 6)), alias=bool(rng.random() < 0.25), special=bool(rng.random() < 0.3), wide_info=wide)
    labels.add("fix_first_pose=%s" % ffp)
    if rng.random() < 0.12:
        # partial information: unconstrained axes (zero rows), independent axes, small dense blocks, off-diagonals that cancel in sum
        for lab in gen.sparsify_information(rng, spec["edges"]):
            labels.add("information_sparse:" + lab)
    if rng.random() < 0.12 and not large:
        # a start that is already within 1e-12..1e-7 (relative to the coordinates) of the optimum: the Gauss-Newton step is tiny, and it is still the step
        try:
            g0 = M.build(spec)
            with np.errstate(all="ignore"):
                M.quiet_optimize(g0, max_iter=25, tol=1e-14, fix_first_pose=ffp)
            ok0 = all(math.isfinite(x) for v in g0._vertices for x in M.fl(v.pose))
        except Exception:
            ok0 = False
        if ok0:
            mag = float(10 ** rng.uniform(-12, -7))
            spec = gen.copy_spec(spec)
            spec.pop("share", None)
            for sv, lv in zip(spec["vertices"], g0._vertices):
                k0 = sv["kind"]
                p0 = M.fl(lv.pose)
                nt = {"r2": 2, "r3": 3, "se2": 2, "se3": 3}[k0]
                sc = max(1.0, R.tmag(k0, p0))
                if not sv.get("fixed") and not (ffp and sv is spec["vertices"][0]):
                    p0 = [x + float(rng.normal()) * mag * sc for x in p0[:nt]] + list(p0[nt:])
                    if k0 == "se2":
                        p0[2] = R.val(R.wrap(p0[2] + float(rng.normal()) * mag))
                sv["pose"] = p0
            labels.add("start_within_1e-7_of_the_optimum")
    case = {"graph": {k: v for k, v in spec.items() if k != "truth_by_id"}, "fix_first_pose": ffp}
    res = one_step_check(ctx, spec, labels, ffp, case, cond_max=(1e13 if wide else 1e10), inplace_rng=(rng if i % 5 == 3 else None))
    if i % 4 == 2:
        # every iteration of a multi-iteration call is such a step: one call of K iterations equals K calls of one iteration (each of which the
        # one-step oracle covers from its own start state)
        K = int(rng.integers(3, 9)) if rng.random() < 0.85 else int(rng.integers(10, 33))  # now and then many calls on one object (anything counted per call)
        ga, gb = M.build(spec), M.build(spec)
        try:
            M.quiet_optimize(ga, max_iter=K, tol=0.0, fix_first_pose=ffp)
            for _ in range(K):
                M.quiet_optimize(gb, max_iter=1, tol=0.0, fix_first_pose=ffp)
            a, b = M.snapshot_poses(ga), M.snapshot_poses(gb)
            same = all(len(p) == len(q) and all((x == y) or (x != x and y != y) or abs(x - y) <= 1e-12 * max(1.0, abs(x)) for x, y in zip(p, q)) for p, q in zip(a, b))
            ctx.check("K-iterations-equal-K-single-steps", same, {"fix_first_pose": ffp}, {"K": K}, case)
        except Exception as ex:
            ctx.count("multi_iteration_raised:" + type(ex).__name__)
    if i % 4 == 0:
        try:
            second_call_check(ctx, spec, labels, rng, case)
        except Skip as sk:
            ctx.skip(sk.reason)
    for lab in labels:
        ctx.count("class:" + lab)
    if res and res is not False:
        ok, moved, cond = res
        if moved > 1e-6:
            ctx.nontrivial(gen.fingerprint(spec))
        ctx.sample({"n_vertices": len(spec["vertices"]), "n_edges": len(spec["edges"]), "labels": sorted(labels), "cond": cond, "max_increment": moved,
                    "edge_types": [e["type"] for e in spec["edges"]][:12], "fix_first_pose": ffp}, cap=2)


def _dataset_case(name, nmax, augment):
    def f(ctx):
        from .. import datasets

        if not datasets.available(name):
            ctx.skip("dataset file missing: " + name)
            return
        rng = np.random.default_rng([3, nmax, int(augment)])
        spec = datasets.load_spec(name, nmax)
        if augment:
            spec = datasets.augment_with_landmarks(rng, spec, 15)
            perm = rng.permutation(len(spec["vertices"]) - 1) + 1
            spec["vertices"] = [spec["vertices"][0]] + [spec["vertices"][int(j)] for j in perm]
        labels = {"dataset:" + name}
        try:
            one_step_check(ctx, spec, labels, True, {"dataset": name, "n_vertices": nmax, "augmented": augment}, cond_max=1e13)
        except Skip as sk:
            ctx.skip("dataset %s: %s" % (name, sk.reason))
        ctx.count("dataset:" + name)
        ctx.nontrivial("dataset-%s-%d-%s" % (name, nmax, augment))
    return f


DATASET_CASES = [_dataset_case("intel", 150, False), _dataset_case("intel", 150, True), _dataset_case("garage", 200, False), _dataset_case("garage", 200, True),
                 _dataset_case("intel", 40, True), _dataset_case("garage", 40, True)]


def _large_sparse_case(n_poses):
    """A graph too large for the dense oracle (>= 25 000 unknowns): the applied increment is compared with a sparse direct solve of the normal equations
    assembled from the real edges' own errors and Jacobians."""
    def f(ctx):
        import scipy.sparse as sp
        import scipy.sparse.linalg as spla

        rng = np.random.default_rng([3, n_poses])
        spec = gen.trajectory_graph(rng, "se2", n_poses, n_loops=n_poses // 20, n_lm=0, meas_t=0.02, meas_r=0.005, init_t=0.05, init_r=0.02, cond=10.0, cross=True)
        g = M.build(spec)
        verts = g._vertices
        idx, n = M.index_map(g)
        before = M.snapshot_poses(g)
        rows, cols, vals = [], [], []
        b = np.zeros(n)
        with np.errstate(all="ignore"):
            for e in g._edges:
                Om = np.asarray(e.information, dtype=float)
                er = np.asarray(e.calc_error(), dtype=float)
                Js = e.calc_jacobians()
                for va, Ja in zip(e.vertices, Js):
                    ia = idx[id(va)]
                    b[ia:ia + 3] += Ja.T @ Om @ er
                    for vb, Jb in zip(e.vertices, Js):
                        ib = idx[id(vb)]
                        blk = Ja.T @ Om @ Jb
                        for r in range(3):
                            for c in range(3):
                                rows.append(ia + r)
                                cols.append(ib + c)
                                vals.append(blk[r, c])
        H = sp.csc_matrix((vals, (rows, cols)), shape=(n, n))
        free = np.ones(n, bool)
        free[:3] = False
        keep = np.where(free)[0]
        dx = np.zeros(n)
        dx[keep] = spla.spsolve(H[keep][:, keep], -b[keep])
        M.quiet_optimize(g, max_iter=1, tol=0.0)
        after = M.snapshot_poses(g)
        worst = 0.0
        for j, v in enumerate(verts):
            d_app = np.array(M.applied_increment("se2", before[j], after[j]))
            d_ref = dx[idx[id(v)]: idx[id(v)] + 3]
            diff = np.abs(d_app - d_ref)
            diff[2] = R.ang_diff(d_app[2], d_ref[2])
            worst = max(worst, float(diff.max()))
        # two direct sparse solves of a 9000-pose chain agree to eps x cond(H) ~ 1e-5 relative (observed 2e-5); the applied step must also satisfy the
        # normal equations themselves to solver accuracy (a residual test, independent of the conditioning)
        dx_app = np.zeros(n)
        for j, v in enumerate(verts):
            dx_app[idx[id(v)]: idx[id(v)] + 3] = M.applied_increment("se2", before[j], after[j])
        resid = float(np.abs((H @ dx_app + b)[keep]).max()) / max(1e-300, float(np.abs(b).max()) + float(abs(H).max()) * float(np.abs(dx_app).max()))
        ctx.margin("gn-step-applied(large sparse graph: residual)", resid / 1e-9)
        ctx.check("gn-step-applied", worst <= 2e-3 * max(1.0, float(np.abs(dx).max())) and resid <= 1e-9, {"kind": "se2", "where": "large sparse graph", "unknowns": n},
                  {"worst": worst, "max_increment": float(np.abs(dx).max()), "relative_residual": resid}, {"n_poses": n_poses})
        ctx.count("class:graph_with_25000+_unknowns")
        ctx.nontrivial("large-%d" % n_poses)
    return f


PINNED = [_large_sparse_case(9000)]  # cheap enough (4 s on one shard) to run in both tiers
