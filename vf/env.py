"""Bootstrap: make sure `graphslam` is imported from the repository working tree under test."""
import os
import sys

REPO = os.path.realpath(os.environ.get("VERIF_REPO", "/repo"))
VERIF = os.path.dirname(os.path.dirname(os.path.abspath(__file__)))

os.environ.setdefault("OMP_NUM_THREADS", "1")
os.environ.setdefault("OPENBLAS_NUM_THREADS", "1")
os.environ.setdefault("MKL_NUM_THREADS", "1")
os.environ.setdefault("MPLBACKEND", "Agg")
sys.dont_write_bytecode = True

if sys.path[0] != REPO:
    sys.path.insert(0, REPO)

import graphslam  # noqa: E402

_gf = os.path.realpath(graphslam.__file__)
if not _gf.startswith(REPO + os.sep):
    raise RuntimeError("graphslam imported from %s, expected under %s" % (_gf, REPO))
