#!/bin/bash
# usage: tools/coverage_report.sh [tier]   -- line coverage of /repo/graphslam by the checks' workloads (per check and combined); scratch under a temp dir
tier=${1:-quick}
cd "$(dirname "$0")/.."
d=$(mktemp -d /tmp/vfcov.XXXXXX)
for c in C01 C02 C03 C04 C05 C06 C07 C08 C09 C10 C11 C12 C13 C14 C15 C16 C17 C18; do
  VF_COVERAGE_DIR=$d VERIF_EVIDENCE_DIR=$d/ev VERIF_REPLAY_DIR=$d/rp ./check $c $tier > $d/$c.log 2>&1 &
done
wait
cd $d
/venv/bin/python -m coverage combine -q .coverage.C* >/dev/null 2>&1
/venv/bin/python -m coverage report -m
cd /; rm -rf $d
