#!/venv/bin/python
"""Sampled first-order mutation analysis of /repo/graphslam against the quick checks.

usage: tools/mutation_sample.py [--n 200 | --per-file 25] [--seed 0] [--jobs 4] [--out /tmp/mutation.json] [--with-tests]

Every mutant is one AST node of one source file changed by a classic operator (relational / arithmetic / boolean operator
replacement, unary minus removal, numeric constant perturbation, small integer subscript shift).  The mutated file is written
(ast.unparse) into a scratch copy of the package under /tmp; the checks relevant to that file are run with VERIF_REPO pointing
at the copy, stopping at the first one that reports a VIOLATION.  Nothing in /repo is touched.  The result lists killed /
surviving mutants with file, line, operator and the original / mutated expression, for manual classification of survivors
(equivalent vs. gap).
"""
import ast
import copy
import json
import os
import random
import shutil
import subprocess
import sys
import tempfile
from concurrent.futures import ThreadPoolExecutor

VERIF = os.path.dirname(os.path.dirname(os.path.abspath(__file__)))
REPO = "/repo"
FILES = {
    "graphslam/pose/se2.py": ["C09", "C10", "C11", "C01", "C02", "C15"],
    "graphslam/pose/se3.py": ["C09", "C10", "C11", "C01", "C02", "C15"],
    "graphslam/pose/r2.py": ["C09", "C10", "C04", "C01", "C15"],
    "graphslam/pose/r3.py": ["C09", "C10", "C04", "C01", "C15"],
    "graphslam/pose/base_pose.py": ["C17", "C09", "C15"],
    "graphslam/edge/base_edge.py": ["C02", "C16", "C03", "C17", "C18", "C15"],
    "graphslam/edge/edge_odometry.py": ["C01", "C02", "C13", "C14", "C17", "C18"],
    "graphslam/edge/edge_landmark.py": ["C01", "C02", "C13", "C14", "C17", "C18"],
    "graphslam/graph.py": ["C03", "C06", "C12", "C04", "C13", "C14", "C17", "C18", "C15", "C05"],
    "graphslam/util.py": ["C11", "C09", "C14", "C13"],
    "graphslam/vertex.py": ["C13", "C14", "C17", "C15"],
    "graphslam/g2o_parameters.py": ["C13", "C14"],
}
SKIP_FUNCS = {"plot", "__str__", "__repr__"}

CMP = {ast.Lt: ast.LtE, ast.LtE: ast.Lt, ast.Gt: ast.GtE, ast.GtE: ast.Gt, ast.Eq: ast.NotEq, ast.NotEq: ast.Eq, ast.Is: ast.IsNot, ast.IsNot: ast.Is}
BIN = {ast.Add: ast.Sub, ast.Sub: ast.Add, ast.Mult: ast.Div, ast.Div: ast.Mult}
BOOL = {ast.And: ast.Or, ast.Or: ast.And}


def candidates(tree):
    """(path-to-node as list of (field, index), operator name) for every mutable node outside docstrings / skipped functions."""
    out = []

    def visit(node, path, skip):
        if isinstance(node, (ast.FunctionDef, ast.AsyncFunctionDef)) and node.name in SKIP_FUNCS:
            return
        if isinstance(node, ast.Compare) and len(node.ops) == 1 and type(node.ops[0]) in CMP:
            out.append((path, "ROR"))
        if isinstance(node, ast.BinOp) and type(node.op) in BIN:
            out.append((path, "AOR"))
        if isinstance(node, ast.BoolOp) and type(node.op) in BOOL:
            out.append((path, "LCR"))
        if isinstance(node, ast.UnaryOp) and isinstance(node.op, (ast.USub, ast.Not)):
            out.append((path, "UOD"))
        if isinstance(node, ast.Constant) and isinstance(node.value, (int, float)) and not isinstance(node.value, bool) and not skip:
            out.append((path, "CRP"))
        for field, value in ast.iter_fields(node):
            if isinstance(value, list):
                for i, item in enumerate(value):
                    if isinstance(item, ast.AST):
                        # skip docstrings
                        if field == "body" and i == 0 and isinstance(item, ast.Expr) and isinstance(getattr(item, "value", None), ast.Constant) and isinstance(item.value.value, str):
                            continue
                        visit(item, path + [(field, i)], skip)
            elif isinstance(value, ast.AST):
                visit(value, path + [(field, None)], skip or (isinstance(node, ast.keyword)))
    visit(tree, [], False)
    return out


def get(node, path):
    for field, i in path:
        node = getattr(node, field)
        if i is not None:
            node = node[i]
    return node


def set_(root, path, new):
    parent = get(root, path[:-1])
    field, i = path[-1]
    if i is None:
        setattr(parent, field, new)
    else:
        getattr(parent, field)[i] = new


def mutate(tree, path, op, rng):
    t = copy.deepcopy(tree)
    node = get(t, path)
    orig = ast.unparse(node)
    if op == "ROR":
        node.ops = [CMP[type(node.ops[0])]()]
    elif op == "AOR":
        node.op = BIN[type(node.op)]()
    elif op == "LCR":
        node.op = BOOL[type(node.op)]()
    elif op == "UOD":
        set_(t, path, node.operand)
        node = node.operand
    else:
        v = node.value
        if isinstance(v, int):
            nv = rng.choice([v + 1, v - 1] if v not in (0, 1) else [1 - v, v + 1])
        else:
            nv = rng.choice([v * 2.0, v * 0.5, -v] if v != 0 else [1.0])
        node.value = nv
    ast.fix_missing_locations(t)
    return t, orig, ast.unparse(get(t, path)) if op != "UOD" else ast.unparse(node)


def run_one(job):
    idx, rel, path, op, seed, with_tests = job
    rng = random.Random(seed * 100003 + idx)
    src = open(os.path.join(REPO, rel)).read()
    tree = ast.parse(src)
    node = get(tree, path)
    line = getattr(node, "lineno", None)
    try:
        mt, orig, new = mutate(tree, path, op, rng)
        code = ast.unparse(mt)
    except Exception as ex:  # noqa: BLE001
        return {"idx": idx, "file": rel, "line": line, "op": op, "status": "mutation failed: %s" % ex}
    d = tempfile.mkdtemp(prefix="vfmut.")
    rec = {"idx": idx, "file": rel, "line": line, "op": op, "orig": orig[:120], "mutant": new[:120]}
    try:
        shutil.copytree(os.path.join(REPO, "graphslam"), os.path.join(d, "graphslam"))
        with open(os.path.join(d, rel), "w") as f:
            f.write(code + "\n")
        env = dict(os.environ, PYTHONPATH=d, OMP_NUM_THREADS="1", OPENBLAS_NUM_THREADS="1")
        r = subprocess.run(["/venv/bin/python", "-c", "import graphslam.graph, graphslam.load"], cwd=d, env=env, capture_output=True, text=True)
        if r.returncode != 0:
            rec["status"] = "does not import"
            return rec
        if with_tests:
            shutil.copytree(os.path.join(REPO, "tests"), os.path.join(d, "tests"))
            if os.path.isdir(os.path.join(REPO, "data")):
                os.symlink(os.path.join(REPO, "data"), os.path.join(d, "data"))
            t = subprocess.run(["/venv/bin/python", "-m", "pytest", "-q", "-x", "-p", "no:cacheprovider", "--timeout=600"], cwd=d, env=env, capture_output=True, text=True)
            rec["repo_tests"] = "pass" if t.returncode == 0 else "fail"
        killed_by = None
        incon = []
        for c in FILES[rel]:
            cenv = dict(os.environ, VERIF_REPO=d, VERIF_EVIDENCE_DIR=os.path.join(d, "ev"), VERIF_REPLAY_DIR=os.path.join(d, "rp"))
            q = subprocess.run([os.path.join(VERIF, "check"), c, "quick", "--shards", "4"], env=cenv, capture_output=True, text=True)
            if q.returncode == 1 and ("VIOLATION property=%s" % c) in q.stdout:
                killed_by = c
                break
            if q.returncode not in (0, 1):
                incon.append(c)
        rec["status"] = "killed" if killed_by else "survived"
        rec["killed_by"] = killed_by
        if incon:
            rec["inconclusive_checks"] = incon
        return rec
    finally:
        shutil.rmtree(d, ignore_errors=True)


def main():
    a = sys.argv[1:]

    def opt(name, default):
        return a[a.index(name) + 1] if name in a else default
    n, seed, jobs = int(opt("--n", 200)), int(opt("--seed", 0)), int(opt("--jobs", 4))
    out = opt("--out", "/tmp/mutation.json")
    with_tests = "--with-tests" in a
    allc = []
    only_files = opt("--files", None)
    for rel in FILES:
        if only_files and not any(f in rel for f in only_files.split(",")):
            continue
        tree = ast.parse(open(os.path.join(REPO, rel)).read())
        for path, op in candidates(tree):
            allc.append((rel, path, op))
    rng = random.Random(seed)
    rng.shuffle(allc)
    per_file = int(opt("--per-file", 0))
    if per_file:
        # stratified: at most per_file mutants of each source file (the two SE(3)/SE(2) pose files hold most of the arithmetic nodes)
        seen, sample = {}, []
        for rel, path, op in allc:
            if seen.get(rel, 0) < per_file:
                sample.append((rel, path, op))
                seen[rel] = seen.get(rel, 0) + 1
    else:
        sample = allc[:n]
    only = opt("--only-idx", None)
    jobs_list = [(i, rel, path, op, seed, with_tests) for i, (rel, path, op) in enumerate(sample)]
    if only:
        keep = {int(x) for x in only.split(",")}
        jobs_list = [j for j in jobs_list if j[0] in keep]
    print("candidates: %d, sampled: %d, running: %d" % (len(allc), len(sample), len(jobs_list)), flush=True)
    res = []
    with ThreadPoolExecutor(max_workers=jobs) as ex:
        for rec in ex.map(run_one, jobs_list):
            res.append(rec)
            print(json.dumps(rec), flush=True)
            json.dump({"candidates": len(allc), "results": res}, open(out, "w"), indent=1)
    k = sum(1 for r in res if r.get("status") == "killed")
    s = sum(1 for r in res if r.get("status") == "survived")
    print("killed %d, survived %d, other %d" % (k, s, len(res) - k - s))


if __name__ == "__main__":
    main()
