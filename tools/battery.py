#!/venv/bin/python
"""Break-it battery: apply one realistic source change at a time to a scratch copy of /repo's working tree and run
the checks expected to catch it (quick tier).  Nothing in /repo is modified.

usage: tools/battery.py [--tests] [--only NAME_SUBSTR] [--all-checks]
"""
import os
import shutil
import subprocess
import sys
import tempfile

VERIF = os.path.dirname(os.path.dirname(os.path.abspath(__file__)))
G = "graphslam/graph.py"
SE3 = "graphslam/pose/se3.py"
SE2 = "graphslam/pose/se2.py"
BE = "graphslam/edge/base_edge.py"
EO = "graphslam/edge/edge_odometry.py"
EL = "graphslam/edge/edge_landmark.py"
UT = "graphslam/util.py"
VX = "graphslam/vertex.py"
BP = "graphslam/pose/base_pose.py"
GP = "graphslam/g2o_parameters.py"

# (name, file, old, new, expected checks)
MUTANTS = [
    ("se3-oplus-jac-abs", SE3, "[0., 0., 0., other[6], other[5], -other[4], other[3]],", "[0., 0., 0., other[6], other[5], -abs(other[4]), other[3]],", ["C01", "C10"]),
    ("se3-boxplus-jac-1e-7", SE3, "                         [0., 0., 0., self[5], self[6], -self[3]],\n                         [0., 0., 0., -self[4], self[3], self[6]],\n                         [0., 0., 0., -self[3], -self[4], -self[5]]],",
     "                         [0., 0., 0., self[5], self[6] * (1. + 1e-7), -self[3]],\n                         [0., 0., 0., -self[4], self[3], self[6]],\n                         [0., 0., 0., -self[3], -self[4], -self[5]]],", ["C01", "C10"]),
    ("landmark-error-offset-translation-only", EL, "return (((self.vertices[0].pose + self.offset).inverse + self.vertices[1].pose) - self.estimate).to_compact()",
     "return (((self.vertices[0].pose + type(self.offset)(*((self.offset.position, self.offset.orientation) if hasattr(self.offset, 'to_matrix') else (self.offset.position,)))).inverse + self.vertices[1].pose) - self.estimate).to_compact() if True else None", []),
    ("chi2-diag-omega", BE, "return np.dot(np.dot(np.transpose(err), self.information), err)", "return np.dot(np.dot(np.transpose(err), np.diag(np.diag(self.information))), err)", ["C02"]),
    ("drop-transpose", G, "chi2_grad_hess.hessian[idx2, idx1] += np.transpose(contrib)", "chi2_grad_hess.hessian[idx2, idx1] += contrib", ["C03"]),
    ("accumulator-assign", G, "chi2_grad_hess.hessian[idx1, idx2] += contrib", "chi2_grad_hess.hessian[idx1, idx2] = contrib", ["C03"]),
    ("half-step", G, "dx = spsolve(self._hessian, -self._gradient)", "dx = 0.5 * spsolve(self._hessian, -self._gradient)", ["C03", "C04"]),
    ("skip-last-vertex-update", G, "            for v in self._vertices:\n                # Fixed vertices are constants", "            for v in self._vertices[:-1] if len(self._vertices) > 7 else self._vertices:\n                # Fixed vertices are constants", ["C03", "C04"]),
    ("fixed-keeps-coupling", G, "                if hessian_row_idx == hessian_col_idx:\n                    # fmt: off\n                    self._hessian[hessian_row_idx: hessian_row_idx + rows, hessian_col_idx: hessian_col_idx + cols] = np.eye(rows, cols)\n                    # fmt: on\n                continue",
     "                if hessian_row_idx == hessian_col_idx:\n                    # fmt: off\n                    self._hessian[hessian_row_idx: hessian_row_idx + rows, hessian_col_idx: hessian_col_idx + cols] = np.eye(rows, cols)\n                    # fmt: on\n                    continue\n                if hessian_row_idx in self._fixed_gradient_indices:\n                    continue", ["C03", "C06"]),
    ("update-fixed-when-not-ffp", G, "                if v.gradient_index in self._fixed_gradient_indices:\n                    continue\n                # fmt: off\n                v.pose +=", "                if v.gradient_index in self._fixed_gradient_indices and fix_first_pose:\n                    continue\n                # fmt: off\n                v.pose +=", ["C06"]),
    ("gradient-fixed-not-zeroed-2nd", G, "            if gradient_idx not in self._fixed_gradient_indices:", "            if gradient_idx not in self._fixed_gradient_indices or gradient_idx > 30:", ["C03", "C06"]),
    ("left-update-se2", SE2, "        if isinstance(other, PoseSE2) or (isinstance(other, np.ndarray) and len(other) == 3):\n            # fmt: off\n            return PoseSE2([self[0] + other[0] * np.cos(self[2]) - other[1] * np.sin(self[2]),\n                            self[1] + other[0] * np.sin(self[2]) + other[1] * np.cos(self[2])],",
     "        if isinstance(other, np.ndarray) and not isinstance(other, PoseSE2) and len(other) == 3:\n            return PoseSE2([self[0] + other[0], self[1] + other[1]], self[2] + other[2])\n        if isinstance(other, PoseSE2) or (isinstance(other, np.ndarray) and len(other) == 3):\n            # fmt: off\n            return PoseSE2([self[0] + other[0] * np.cos(self[2]) - other[1] * np.sin(self[2]),\n                            self[1] + other[0] * np.sin(self[2]) + other[1] * np.cos(self[2])],", ["C03", "C07", "C09"]),
    ("gradient-index-by-id-order", G, "        for v in self._vertices:\n            v.gradient_index = gradient_index", "        for v in sorted(self._vertices, key=lambda v: v.id):\n            v.gradient_index = gradient_index", []),
    ("bind-by-position", G, "e.vertices = [self._vertices[id_index_dict[v_id]] for v_id in e.vertex_ids]", "e.vertices = [self._vertices[id_index_dict[v_id]] if v_id >= 0 else self._vertices[abs(v_id) % len(self._vertices)] for v_id in e.vertex_ids]", ["C18", "C08"]),
    ("wrap-0-2pi", UT, "return (angle + np.pi) % (TWO_PI) - np.pi", "return angle % TWO_PI if abs(angle) > 100.0 else (angle + np.pi) % (TWO_PI) - np.pi", ["C11"]),
    ("se2-inverse-no-wrap", SE2, "                        self[0] * np.sin(self[2]) - self[1] * np.cos(self[2])],\n                       -self[2])", "                        self[0] * np.sin(self[2]) - self[1] * np.cos(self[2])],\n                       -self[2] if self[2] != -np.pi else 3 * np.pi)", []),
    ("boxplus-no-sqrt", SE3, "qw = np.sqrt(1.0 - qnorm**2)", "qw = 1.0 - 0.5 * qnorm**2", ["C09", "C11"]),
    ("stop-rule-lt", G, "if self._chi2 <= chi2_prev and rel_diff < tol:", "if self._chi2 < chi2_prev and rel_diff < tol:", ["C12"]),
    ("stop-rule-abs", G, "rel_diff = (chi2_prev - self._chi2) / (chi2_prev + np.finfo(float).eps)\n                if verbose:", "rel_diff = (chi2_prev - self._chi2) / max(chi2_prev + np.finfo(float).eps, 1.0)\n                if verbose:", ["C12"]),
    ("num-iter-off-by-one", G, "ret.num_iterations = i\n", "ret.num_iterations = i + 1\n", ["C12"]),
    ("stale-fixed-set", G, "        self._fixed_gradient_indices = {v.gradient_index for v in self._vertices if v.fixed}", "        if not self._fixed_gradient_indices:\n            self._fixed_gradient_indices = {v.gradient_index for v in self._vertices if v.fixed}", ["C15", "C06"]),
    ("vertex-se2-9g", VX, 'return "VERTEX_SE2 {} {} {} {}\\n".format(self.id, self.pose[0], self.pose[1], self.pose[2])', 'return "VERTEX_SE2 {} {:.9g} {:.9g} {:.9g}\\n".format(self.id, self.pose[0], self.pose[1], self.pose[2])', ["C13"]),
    # ---- behaviour-preserving rewrites (expected list empty: run with --all-checks, every check must stay silent) ----
    ("EQUIV solve on an explicit CSC copy", G, "dx = spsolve(self._hessian, -self._gradient)", "dx = spsolve(self._hessian.tocsc(), -self._gradient)", []),
    ("EQUIV graph chi2 summed with numpy", G, "self._chi2 = sum((e.calc_chi2() for e in self._edges))", "self._chi2 = float(np.sum([e.calc_chi2() for e in self._edges][::-1]))", []),
    ("EQUIV gradient blocks associated the other way", BE, "np.dot(np.dot(np.transpose(err), self.information), jacobian)", "np.dot(np.transpose(err), np.dot(self.information, jacobian))", []),
    ("EQUIV update by rebinding instead of +=", G, "v.pose += dx[v.gradient_index: v.gradient_index + v.pose.COMPACT_DIMENSIONALITY]", "v.pose = v.pose + dx[v.gradient_index: v.gradient_index + v.pose.COMPACT_DIMENSIONALITY]", []),
    ("EQUIV angle wrap through arctan2", UT, "return (angle + np.pi) % (TWO_PI) - np.pi", "return float(np.arctan2(np.sin(angle), np.cos(angle)))", []),
    ("EQUIV edges linearised in reverse order", G, "(e.calc_chi2_gradient_hessian() for e in self._edges), _Chi2GradientHessian())", "(e.calc_chi2_gradient_hessian() for e in self._edges[::-1]), _Chi2GradientHessian())", []),
    ("EQUIV vertices updated in reverse order", G, "            for v in self._vertices:\n                # Fixed vertices are constants", "            for v in self._vertices[::-1]:\n                # Fixed vertices are constants", []),
    ("EQUIV angle range (-pi, pi]", UT, "return (angle + np.pi) % (TWO_PI) - np.pi", "r = (angle + np.pi) % (TWO_PI) - np.pi\n    return np.pi if r == -np.pi else r", []),
    ("EQUIV hessian converted to CSR before the solve", G, "dx = spsolve(self._hessian, -self._gradient)", "dx = spsolve(self._hessian.tocsr(), -self._gradient)", []),
    ("EQUIV odometry error as inverse-compose", EO, "err_pose = self.estimate - (self.vertices[1].pose - self.vertices[0].pose)", "err_pose = (self.vertices[1].pose - self.vertices[0].pose).inverse + self.estimate", []),
    ("EQUIV SE2 compose with cached sin/cos locals", SE2, "            return PoseSE2([self[0] + other[0] * np.cos(self[2]) - other[1] * np.sin(self[2]),\n                            self[1] + other[0] * np.sin(self[2]) + other[1] * np.cos(self[2])],\n                           self[2] + other[2])",
     "            c_, s_ = float(np.cos(self[2])), float(np.sin(self[2]))\n            rot_ = np.array([[c_, -s_], [s_, c_]]) @ np.array([float(other[0]), float(other[1])])\n            return PoseSE2([self[0] + rot_[0], self[1] + rot_[1]], self[2] + other[2])", []),
    ("EQUIV SE2 vertex written with 17 significant digits", VX, r'"VERTEX_SE2 {} {} {} {}\n".format(self.id, self.pose[0], self.pose[1], self.pose[2])', r'"VERTEX_SE2 {} {:.17g} {:.17g} {:.17g}\n".format(self.id, self.pose[0], self.pose[1], self.pose[2])', []),
    ("EQUIV pose equals with hypot-style norm", BP, "return np.linalg.norm(self.to_array() - other.to_array()) / max(np.linalg.norm(self.to_array()), tol) < tol", "return float(np.sqrt(np.sum((self.to_array() - other.to_array()) ** 2))) / max(float(np.sqrt(np.sum(self.to_array() ** 2))), tol) < tol", []),
    ("EQUIV SE3 boxplus result rescaled to unit norm", SE3, "                                self[6] * qw - self[3] * qx - self[4] * qy - self[5] * qz])\n", "                                self[6] * qw - self[3] * qx - self[4] * qy - self[5] * qz])._vf_rescaled()\n", []),
    # not behaviour-preserving: a w<0 pose flips its representation under an infinitesimal update, which breaks forward differences of custom error
    # functions that are functions of the stored quaternion (C16); everything that only depends on the rotation is unaffected
    ("SE3 boxplus result canonicalised (unit norm, w >= 0)", SE3, "                                self[6] * qw - self[3] * qx - self[4] * qy - self[5] * qz])\n", "                                self[6] * qw - self[3] * qx - self[4] * qy - self[5] * qz])._vf_canonical()\n", ["C16"]),
    ("EQUIV loader iterates the file object instead of readlines()", G, "            for line in f.readlines():", "            for line in f:", []),
    ("EQUIV loader tries the landmark parser before the odometry parser", G, "                    # Odometry Edge\n                    edge_or_none = EdgeOdometry.from_g2o(line, g2o_params)", "                    # Landmark Edge first (the tags are disjoint)\n                    edge_or_none = EdgeLandmark.from_g2o(line, g2o_params)\n                    if edge_or_none:\n                        edges.append(edge_or_none)\n                        continue\n\n                    # Odometry Edge\n                    edge_or_none = EdgeOdometry.from_g2o(line, g2o_params)", []),
    ("EQUIV export builds the text first and writes it once", G, "                    f.write(edge_str_or_none)", "                    f.write(str(edge_str_or_none))", []),
    ("EQUIV landmark error composed step by step", EL, "return (((self.vertices[0].pose + self.offset).inverse + self.vertices[1].pose) - self.estimate).to_compact()", "sensor_ = self.vertices[0].pose + self.offset\n        local_ = sensor_.inverse + self.vertices[1].pose\n        return (local_ - self.estimate).to_compact()", []),
    ("EQUIV fixed set built with a loop", G, "self._fixed_gradient_indices = {v.gradient_index for v in self._vertices if v.fixed}", "self._fixed_gradient_indices = set()\n        for v_ in self._vertices:\n            if v_.fixed:\n                self._fixed_gradient_indices.add(v_.gradient_index)", []),
    ("info-lower-triangle", EO, 'self.estimate[2]) + " ".join([str(x) for x in self.information[np.triu_indices(3, 0)]])', 'self.estimate[2]) + " ".join([str(x) for x in self.information.T[np.triu_indices(3, 0)]])', []),
    ("params-after-edges", G, "            if self._g2o_params:\n                for g2o_param in self._g2o_params.values():\n                    f.write(g2o_param.to_g2o())\n\n            for v in self._vertices:\n                f.write(v.to_g2o())\n",
     "            for v in self._vertices:\n                f.write(v.to_g2o())\n\n            if self._g2o_params:\n                for g2o_param in self._g2o_params.values():\n                    f.write(g2o_param.to_g2o())\n", ["C13"]),
    ("trackxyz-ignores-param-id", EL, 'offset = g2o_params_or_none[("PARAMS_SE3OFFSET", offset_id)].value', 'offset = list(g2o_params_or_none.values())[-1].value if len(g2o_params_or_none) > 1 else g2o_params_or_none[("PARAMS_SE3OFFSET", offset_id)].value', ["C14"]),
    ("stop-after-first-junk", G, '                    _LOGGER.warning("Line not supported -- \'%s\'", line.rstrip())', '                    _LOGGER.warning("Line not supported -- \'%s\'", line.rstrip())\n                    if line.startswith("FIX"):\n                        break', ["C14"]),
    ("edge-se2-xy-parse-offbyone", EL, "information = upper_triangular_matrix_to_full_matrix(arr[2:], 2)\n", "information = upper_triangular_matrix_to_full_matrix(arr[2:], 2).T * np.array([[1.0, 1.0], [1.0 + (arr[3] < -50), 1.0]])\n", ["C14"]),
    ("numdiff-no-restore", BE, "            self.vertices[vertex_index].pose = p0\n", "            pass\n", ["C15", "C16"]),
    ("numdiff-restores-a-copy (F7 reverted)", BE, "            self.vertices[vertex_index].pose = p0\n", "            self.vertices[vertex_index].pose = p0.copy()\n", ["C15"]),
    ("numdiff-step-1e-3", BE, "_NUMERICAL_DIFFERENTIATION_EPSILON = 1e-6", "_NUMERICAL_DIFFERENTIATION_EPSILON = 1e-3", ["C16"]),
    ("numdiff-first-two-vertices", BE, "return [self._calc_jacobian(err, v.pose.COMPACT_DIMENSIONALITY, i) for i, v in enumerate(self.vertices)]", "return [self._calc_jacobian(err, v.pose.COMPACT_DIMENSIONALITY, i) if i < 2 else np.zeros(err.shape + (v.pose.COMPACT_DIMENSIONALITY,)) for i, v in enumerate(self.vertices)]", ["C16", "C03"]),
    ("equals-absolute-norm", BP, "return np.linalg.norm(self.to_array() - other.to_array()) / max(np.linalg.norm(self.to_array()), tol) < tol", "return np.linalg.norm(self.to_array() - other.to_array()) < tol", ["C17"]),
    ("equals-first-vertex-id-only", BE, "if any(v_id1 != v_id2 for v_id1, v_id2 in zip(self.vertex_ids, other.vertex_ids)):", "if any(v_id1 != v_id2 for v_id1, v_id2 in zip(self.vertex_ids[:1], other.vertex_ids[:1])):", ["C17"]),
    ("equals-ignores-offset", EL, "        if not self.offset.equals(other.offset, tol):\n            return False\n", "", ["C17"]),
    ("odometry-accepts-any-information", EO, "        return self.information.shape == (n, n)", "        return self.information.shape[0] == n", ["C18"]),
    ("landmark-skips-estimate-check", EL, "if not isinstance(self.offset, pose_type) or not isinstance(self.estimate, point_type):", "if not isinstance(self.offset, pose_type):", ["C18"]),
]

ALL = ["C%02d" % i for i in range(1, 19)]


def main():
    args = sys.argv[1:]
    run_tests = "--tests" in args
    allchecks = "--all-checks" in args
    only_checks = sys.argv[sys.argv.index("--checks") + 1].split(",") if "--checks" in sys.argv else None
    only = args[args.index("--only") + 1] if "--only" in args else None
    rows = []
    for name, rel, old, new, expected in MUTANTS:
        if only and only not in name:
            continue
        d = tempfile.mkdtemp(prefix="vfbat.")
        try:
            shutil.copytree("/repo/graphslam", os.path.join(d, "graphslam"))
            p = os.path.join(d, rel)
            s = open(p).read()
            if s.count(old) < 1:
                rows.append((name, "PATTERN NOT FOUND", "", ""))
                print(rows[-1], flush=True)
                continue
            s = s.replace(old, new)
            if "_vf_rescaled" in new or "_vf_canonical" in new:
                s = s.replace("    def copy(self):", "    def _vf_rescaled(self):\n        self[3:] = self[3:] / np.linalg.norm(self[3:])\n        return self\n\n    def _vf_canonical(self):\n        self.normalize()\n        return self\n\n    def copy(self):", 1)
            open(p, "w").write(s)
            r = subprocess.run(["/venv/bin/python", "-c", "import graphslam.graph"], cwd=d, env=dict(os.environ, PYTHONPATH=d), capture_output=True, text=True)
            if r.returncode != 0:
                rows.append((name, "DOES NOT IMPORT", r.stderr[-200:], ""))
                print(rows[-1], flush=True)
                continue
            tests = ""
            if run_tests:
                shutil.copytree("/repo/tests", os.path.join(d, "tests"))
                if os.path.isdir("/repo/data"):
                    os.symlink("/repo/data", os.path.join(d, "data"))
                t = subprocess.run(["/venv/bin/python", "-m", "pytest", "-q", "-x", "-p", "no:cacheprovider", "--timeout=900"], cwd=d,
                                   env=dict(os.environ, PYTHONPATH=d, OMP_NUM_THREADS="1"), capture_output=True, text=True)
                tests = "tests:" + ("pass" if t.returncode == 0 else "FAIL")
            caught, missed = [], []
            for c in (only_checks or (ALL if allchecks else expected)):
                env = dict(os.environ, VERIF_REPO=d, VERIF_EVIDENCE_DIR=os.path.join(d, "ev"), VERIF_REPLAY_DIR=os.path.join(d, "rp"))
                q = subprocess.run([os.path.join(VERIF, "check"), c, "quick"], env=env, capture_output=True, text=True)
                (caught if (q.returncode == 1 and "VIOLATION property=%s" % c in q.stdout) else missed).append(c + ("" if q.returncode in (0, 1) else "(rc=%d)" % q.returncode))
            rows.append((name, "caught:" + ",".join(caught), "missed:" + ",".join(missed), tests))
            print(rows[-1], flush=True)
        finally:
            shutil.rmtree(d, ignore_errors=True)
    return 0


if __name__ == "__main__":
    sys.exit(main())
