#!/bin/bash
# usage: tools/mutant.sh <file-relative-to-repo> <sed-expr> <check args...>
# copies /repo/graphslam to a scratch dir, applies the sed expression, runs ./check against it, removes the copy.
set -u
f="$1"; expr="$2"; shift 2
d=$(mktemp -d /tmp/vfmut.XXXXXX)
cp -r /repo/graphslam "$d/graphslam"
sed -i "$expr" "$d/$f"
if diff -rq /repo/graphslam "$d/graphslam" >/dev/null; then echo "MUTANT IDENTICAL (sed did not match)"; rm -rf "$d"; exit 3; fi
diff -r /repo/graphslam "$d/graphslam" | head -6
VERIF_REPO="$d" VERIF_EVIDENCE_DIR="$d/evidence" VERIF_REPLAY_DIR="$d/replays" "$(dirname "$0")/../check" "$@" | grep -E "VIOLATION|HELD|INCONCLUSIVE|monitor=" | head -8
rc=${PIPESTATUS[0]}
rm -rf "$d"
exit $rc
