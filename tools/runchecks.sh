#!/bin/bash
# usage: tools/runchecks.sh <tier> "<C04 C05 ...>" <seed...>   -- like runall.sh for a subset of checks
tier=$1; checks=$2; shift 2
cd "$(dirname "$0")/.."
for s in "$@"; do
  for p in $checks; do
    t0=$(date +%s.%N)
    out=$(VERIF_SEED=$s ./check $p $tier 2>&1); rc=$?
    t1=$(date +%s.%N)
    echo "seed=$s $p rc=$rc $(printf '%.1fs' $(echo "$t1-$t0"|bc)) $(echo "$out" | grep -E '^(HELD|VIOLATION|INCONCLUSIVE|KNOWN)' | head -2 | tr '\n' ' ')"
  done
done
