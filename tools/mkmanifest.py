#!/venv/bin/python
"""Regenerate MANIFEST.json from the table below and the property modules that exist."""
import json
import os
import subprocess

VERIF = os.path.dirname(os.path.dirname(os.path.abspath(__file__)))

T = {
    "C01": ("post-condition monitor on calc_jacobians (direct + in situ) vs forward-mode AD reference",
            "Every Jacobian returned by EdgeOdometry/EdgeLandmark.calc_jacobians on 10^3-10^5 hostile edges (w<0/w=0 quaternions, angles at +-pi, 1e6 translations, rotated offsets) and on every call made inside real optimizer runs is compared entry-wise (1e-11 relative) with the AD derivative of an independently written error model, with a Richardson finite difference of the real error as second opinion. Held on the executions observed; a sampled continuous domain, not a proof.",
            "reference model vf/refmodel.py (validated against Richardson differences, matrix route and scipy Rotation by vf.selftest); numpy"),
    "C02": ("post-condition monitor on calc_error / calc_chi2 / Graph.calc_chi2 vs Hamilton-product reference model",
            "Every edge error, edge chi2 and graph chi2 of generated hostile graphs is compared with an independent model at a few-ulp tolerance scaled by operand magnitude, plus the derived relations (zero iff consistent, >= 0 for PSD, linear in Omega). Exploration of sampled inputs.",
            "reference model; rotational SE(3) error compared up to the global sign of the error quaternion"),
    "C03": ("state before/after one real iteration + solver-boundary spy vs dense reduced normal equations",
            "One real optimize(max_iter=1) on hostile structures (parallel/reversed edges, mixed dimensions, custom 1-3 vertex edges, several fixed vertices, shuffled lists, huge ids, both fix_first_pose values) is compared with the dense reduced Gauss-Newton step assembled from the real edges' own e and J; the (H, rhs) that cross the scipy boundary are compared too. Exploration.",
            "numpy.linalg.solve on the reduced system; cond(H)<=1e10"),
    "C04": ("state after optimize() vs closed-form weighted-least-squares solution",
            "R^2/R^3 graphs with far-away initial guesses and ill-conditioned SPD information are optimized by the real code and compared with the closed-form minimiser from the reference model (200 eps cond tolerance) and its chi2. Exploration.",
            "reference model, numpy.linalg"),
    "C05": ("OptimizationResult + final state vs independent Newton decrement (bounded: 50 iterations, calibrated neighbourhood)",
            "Inside the calibrated neighbourhood the real optimizer must converge within 50 iterations, not increase chi2, end where the Newton decrement measured with the independent AD model is below 100 tol chi2_prev, and recover ground truth for noise-free data. 'Eventually' is decided only in this bounded form. Exploration.",
            "calibration of the neighbourhood (DESIGN.md 5/C05); reference model"),
    "C06": ("snapshots around optimize() in every outcome + fault injection at the solver boundary",
            "Fixed poses and flags are compared bitwise before/after real optimizer runs that return, diverge, hit singular systems or suffer injected solver faults (NaN/inf/raise); on well-posed graphs with extra fixed vertices (isolated, landmarks, all) the step must equal the reduced solution. Exploration plus enumerated fault kinds.",
            "fault plan covers the solver boundary only; reference reduced solve"),
    "C07": ("pairs of executions (G, T.G) compared through the reference group model",
            "chi2 and K=1..5 iteration trajectories of a graph and of its rigidly moved copy are compared (T up to 1e6 translation, rotations near 180 degrees). Exploration of sampled graphs and transforms.",
            "reference model for T.x; cond(H)<=1e8"),
    "C08": ("pairs of executions under 7 re-representations of the same physical graph",
            "Vertex/edge permutations, id relabelling, 2*pi*k angle shifts, quaternion sign flips, edge splitting and information scaling are applied to generated graphs (block-diagonal and cross-coupled information) and chi2 / K-iteration results are compared. Exploration.",
            "reference model for pose comparison"),
    "C09": ("post-condition monitor on pose operators vs reference group model and axioms",
            "Every +, -, inverse, identity, to_matrix/from_matrix, += and boxplus result on hostile operands of the four pose types is compared with the reference model, matrix homomorphism and group axioms. Exploration.",
            "reference model; scipy Rotation as third route in selftest"),
    "C10": ("post-condition monitor on the 12 jacobian_* methods x 4 pose types vs AD along the manifold",
            "Shape, compact-row relation and the derivative along every tangent direction (chained with jacobian_boxplus) of all 48 public Jacobian methods are compared with AD of the reference operation at hostile operands. Exploration.",
            "reference model AD"),
    "C11": ("online invariant on every produced SE(2)/SE(3) pose along 10^4-operation chains and optimizer runs",
            "Angle range and exact congruence (50-digit decimal reduction) of every SE(2) pose, unit norm vs operation depth of every SE(3) pose, normalize() post-condition; chains up to 10^4 operations, angles to 1e6, optimizer runs to 50 iterations. Exploration of histories.",
            "decimal arithmetic for the exact angle; depth-scaled norm bound"),
    "C12": ("recorded chi2 trace (single-iteration driving) replayed through an executable model of the stopping rule",
            "The documented stopping rule is replayed exactly on the chi2 sequence each real optimize() call itself reports (where it had to stop, what it had to report); the reported values are compared with an independent trajectory obtained by driving the real code one iteration at a time (stopping point too, except at near ties); verbose on/off and every call split are compared. Exploration of configurations and histories.",
            "single-iteration driving equals the trajectory (itself checked by the split relation)"),
    "C13": ("export -> file -> import cycles with element-wise lossless comparison and independent re-tokenisation",
            "Generated graphs are written by the real to_g2o, re-read by the real from_g2o for 1-5 cycles and compared bit-for-bit (angles modulo 2pi, quaternions up to renormalisation/sign), the file is re-tokenised independently, inexpressible content must raise. Exploration.",
            "independent tokenizer in vf/refmodel.py"),
    "C14": ("generated files -> loader entry points + log records vs independent tokenizer; differential junk insertion",
            "Files mixing all supported line types, numeric formats, spacing, CRLF and junk are loaded through every entry point and compared with an independent tokenizer; warnings are matched to unsupported lines. Exploration.",
            "independent tokenizer"),
    "C15": ("bitwise state snapshots around every call of random 50-call query/optimize histories",
            "All numeric state of a graph is snapshotted before and after each query; queries must leave it bit-identical and return repeat-equal values; optimize may change only poses (and the first fixed flag). Exploration of histories.",
            "snapshot covers poses, flags, ids, estimates, information, offsets, parameters"),
    "C16": ("numerical Jacobians of harness-defined custom edges vs AD twin; twin-graph optima compared",
            "A family of custom edges implementing only calc_error gets numerical Jacobians from the real BaseEdge; they are compared with the ideal forward-difference bound and twin graphs with exact Jacobians must reach the same optimum. Exploration over programs and inputs.",
            "family of 7 custom error functions defined in vf/custom.py"),
    "C17": ("return/raise of equals() in both directions on all kind pairs vs independent relative-norm specification",
            "equals is driven on all ordered pairs of object kinds with single-component perturbations from 1e-12 to 1e3 times the tolerance; expected True/False outside a 0.1x..10x band, never an exception. Exploration.",
            "independent specification of the relative-norm comparison"),
    "C18": ("complete enumeration through the real Graph constructor vs an independent consistency table",
            "All combinations of edge kind, endpoint pose classes (1-3 endpoints), estimate class, offset class, information shape and id presence are constructed with the real classes; accept/raise is compared with an independent table and accepted edges must be usable. Finite space enumerated completely.",
            "consistency table in vf/props/c18.py; assertions enabled"),
}

SECTION = {p: "DESIGN.md section 5, %s" % p for p in T}


def main():
    built = sorted(f[:-3].upper() for f in os.listdir(os.path.join(VERIF, "vf", "props")) if f.startswith("c") and f.endswith(".py"))
    try:
        commits = subprocess.run(["git", "-C", "/repo", "log", "--format=%h %s", "c23694b..HEAD"], capture_output=True, text=True).stdout.strip().splitlines()
    except Exception:
        commits = []
    checks = []
    for p in sorted(T):
        if p not in built:
            continue
        tech, text, note = T[p]
        checks.append({
            "property_id": p,
            "quick_cmd": "./check %s quick" % p,
            "thorough_cmd": "./check %s thorough" % p,
            "evidence_file": "evidence/%s.json" % p,
            "replay_cmd_template": "./check %s --replay {path}" % p,
            "engine": "vf",
            "level_claimed": {"category": "exploration", "text": text, "design_ref": SECTION[p]},
            "level_note": note + "; CPython 3.12 of /venv with its numpy/scipy; assertions enabled",
            "technique": "runtime monitoring: " + tech,
        })
    na = [{"property_id": p, "reason": "check not built yet in this session (planned, see DESIGN.md section 5)"} for p in sorted(T) if p not in built]
    m = {
        "version": 1,
        "setup_cmd": "/venv/bin/python -m vf.selftest",
        "hooks": {
            "guard": "GRAPHSLAM_VERIF",
            "enable": "no source hooks in /repo: monitors are attached from the harness (vf/monitors.py) to the classes imported from /repo's working tree; GRAPHSLAM_VERIF=1 only switches the harness-side pytest plugin on",
            "baseline_off_cmd": "cd /repo && /venv/bin/python -m pytest -ra -q -p no:cacheprovider --timeout=900 --continue-on-collection-errors",
            "source_commits": [],
            "add_only": True,
        },
        "engines": [{"name": "vf", "path": "vf/", "serves_properties": [c["property_id"] for c in checks],
                     "kind_free_text": "runtime monitors (wrappers on the real classes, solver-boundary spy with fault injection, snapshot/trace checkers) + independent reference model as oracle, sharded seeded workloads"}],
        "checks": checks,
        "notes": "fix: commits in /repo (genuine defects repaired, see known_findings.json): " + "; ".join(commits),
        "not_applicable": na,
    }
    with open(os.path.join(VERIF, "MANIFEST.json"), "w") as f:
        json.dump(m, f, indent=1)
        f.write("\n")
    print("MANIFEST.json: %d checks, %d not yet claimed" % (len(checks), len(na)))


if __name__ == "__main__":
    main()
