#!/venv/bin/python
"""Confirm a sub-agent's seeded change and run checks against it.

usage: tools/seed_verify.py <src_dir> <seed_id> [--checks C03,C06 | --all] [--skip-tests] [--tier quick]

<src_dir> holds patch.diff, demo.py, meta.json.  Steps (all in a scratch git worktree of /repo's HEAD under /tmp, removed
afterwards; /repo itself is never modified):
  1. patch applies; package imports
  2. the repository's own test-suite passes with the patch
  3. demo.py exits non-zero with the patch and 0 without
  4. the selected checks (default: the property's own check) are run with VERIF_REPO=<worktree>
The change is stored as /verif/seeded/<seed_id>/ with the verification record merged into meta.json.
"""
import json
import os
import shutil
import subprocess
import sys
import tempfile
import time

VERIF = os.path.dirname(os.path.dirname(os.path.abspath(__file__)))
PY = "/venv/bin/python"


def sh(cmd, **kw):
    return subprocess.run(cmd, capture_output=True, text=True, **kw)


def main():
    a = sys.argv[1:]
    src, sid = os.path.abspath(a[0]), a[1]
    checks = None
    tier = "quick"
    skip_tests = "--skip-tests" in a
    if "--checks" in a:
        checks = a[a.index("--checks") + 1].split(",")
    if "--all" in a:
        checks = ["C%02d" % i for i in range(1, 19)]
    if "--tier" in a:
        tier = a[a.index("--tier") + 1]
    meta = json.load(open(os.path.join(src, "meta.json")))
    if "agent_meta" in meta:
        meta = meta["agent_meta"]
    prop = meta.get("property", sid.split("-")[0])
    if checks is None:
        checks = [prop]
    wt = tempfile.mkdtemp(prefix="vfseed.")
    os.rmdir(wt)
    rec = {"seed_id": sid, "verified_at": time.strftime("%Y-%m-%d %H:%M:%S"), "repo_head": sh(["git", "-C", "/repo", "rev-parse", "--short", "HEAD"]).stdout.strip()}
    try:
        r = sh(["git", "-C", "/repo", "worktree", "add", "--detach", "-q", wt, "HEAD"])
        if r.returncode:
            print("worktree failed", r.stderr)
            return 2
        env = dict(os.environ, PYTHONPATH=wt, OMP_NUM_THREADS="1", OPENBLAS_NUM_THREADS="1", REPO_UNDER_TEST=wt, PYTHONDONTWRITEBYTECODE="1")
        # demo on the unchanged tree
        d0 = sh([PY, os.path.join(src, "demo.py")], env=env, cwd="/tmp")
        rec["demo_passes_without_patch"] = d0.returncode == 0
        r = sh(["git", "-C", wt, "apply", os.path.abspath(os.path.join(src, "patch.diff"))])
        rec["patch_applies"] = r.returncode == 0
        if r.returncode:
            print("patch does not apply:", r.stderr[:500])
            return 2
        rec["files_touched"] = sh(["git", "-C", wt, "diff", "--name-only"]).stdout.split()
        imp = sh([PY, "-c", "import graphslam.graph, graphslam.load; import os; print(os.path.dirname(graphslam.__file__))"], env=env, cwd="/tmp")
        rec["imports"] = imp.returncode == 0 and imp.stdout.strip().startswith(wt)
        d1 = sh([PY, os.path.join(src, "demo.py")], env=env, cwd="/tmp")
        rec["demo_fails_with_patch"] = d1.returncode != 0
        rec["demo_output_with_patch"] = (d1.stdout + d1.stderr)[-600:]
        if not skip_tests:
            t = sh([PY, "-m", "pytest", "-q", "-p", "no:cacheprovider", "--timeout=900"], env=env, cwd=wt)
            rec["tests_pass_with_patch"] = t.returncode == 0
            rec["tests_tail"] = t.stdout.strip().splitlines()[-1] if t.stdout.strip() else ""
        caught, missed, detail = [], [], {}
        for c in checks:
            cenv = dict(os.environ, VERIF_REPO=wt, VERIF_EVIDENCE_DIR=os.path.join(wt, ".vf_ev"), VERIF_REPLAY_DIR=os.path.join(wt, ".vf_rp"))
            q = sh([os.path.join(VERIF, "check"), c, tier], env=cenv)
            hit = q.returncode == 1 and ("VIOLATION property=%s" % c) in q.stdout
            (caught if hit else missed).append(c)
            lines = [ln for ln in q.stdout.splitlines() if ln.startswith(("VIOLATION", "  monitor=", "INCONCLUSIVE", "HELD"))]
            detail[c] = {"rc": q.returncode, "lines": lines[:6]}
        rec["checks_run"] = {"tier": tier, "caught_by": caught, "not_caught_by": missed, "detail": detail}
    finally:
        sh(["git", "-C", "/repo", "worktree", "remove", "--force", wt])
        shutil.rmtree(wt, ignore_errors=True)
    dst = os.path.join(VERIF, "seeded", sid)
    os.makedirs(dst, exist_ok=True)
    for f in ("patch.diff", "demo.py"):
        if os.path.realpath(os.path.join(src, f)) != os.path.realpath(os.path.join(dst, f)):
            shutil.copy(os.path.join(src, f), os.path.join(dst, f))
    old = {}
    if os.path.exists(os.path.join(dst, "meta.json")):
        try:
            old = json.load(open(os.path.join(dst, "meta.json")))
        except Exception:
            old = {}
    if skip_tests and old.get("confirmation", {}).get("tests_pass_with_patch") is not None:
        rec["tests_pass_with_patch"] = old["confirmation"]["tests_pass_with_patch"]
        rec["tests_tail"] = old["confirmation"].get("tests_tail", "") + " (from the earlier confirmation run)"
    out = {"property": prop, "summary": meta.get("summary"), "needs_to_manifest": meta.get("needs_to_manifest"), "author": "independent sub-agent given only the property text",
           "agent_meta": meta, "confirmation": rec}
    hist = old.get("history", [])
    if old.get("confirmation"):
        hist.append(old["confirmation"].get("checks_run"))
    out["history"] = hist
    json.dump(out, open(os.path.join(dst, "meta.json"), "w"), indent=1)
    ok = rec.get("patch_applies") and rec.get("imports") and rec.get("demo_fails_with_patch") and rec.get("demo_passes_without_patch") and (skip_tests or rec.get("tests_pass_with_patch"))
    print("%s confirmed=%s tests=%s demo(with/without)=%s/%s caught_by=%s missed=%s" % (sid, bool(ok), rec.get("tests_pass_with_patch"), rec.get("demo_fails_with_patch"),
                                                                                     rec.get("demo_passes_without_patch"), ",".join(caught), ",".join(missed)))
    return 0


if __name__ == "__main__":
    sys.exit(main())
