#!/bin/bash
# Re-run the own-property check against every stored seeded change (quick tier), 8 at a time; prints one line per change.
# usage: tools/reverify_all.sh [--with-tests]
cd "$(dirname "$0")/.."
extra="--skip-tests"; [ "$1" = "--with-tests" ] && extra=""
ls -d seeded/C??-* | xargs -P 8 -I{} sh -c 'id=$(basename {}); tools/seed_verify.py {} $id '"$extra"' 2>&1 | tail -1'
