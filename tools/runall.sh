#!/bin/bash
# usage: tools/runall.sh [tier] [seed...]   -- runs every check, prints one verdict line each
tier=${1:-quick}; shift
seeds=${@:-0}
cd "$(dirname "$0")/.."
for s in $seeds; do
  for p in C01 C02 C03 C04 C05 C06 C07 C08 C09 C10 C11 C12 C13 C14 C15 C16 C17 C18; do
    t0=$(date +%s.%N)
    out=$(VERIF_SEED=$s ./check $p $tier 2>&1); rc=$?
    t1=$(date +%s.%N)
    echo "seed=$s $p rc=$rc $(printf '%.1fs' $(echo "$t1-$t0"|bc)) $(echo "$out" | grep -E '^(HELD|VIOLATION|INCONCLUSIVE|KNOWN)' | head -2 | tr '\n' ' ')"
  done
done
